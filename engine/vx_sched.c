#include "vx_sched.h"
#include "vx_explore.h"

#include <stdio.h>
#include <stdlib.h>
#include <string.h>

int (*vxs_real_create)(pthread_t *, const pthread_attr_t *, void *(*)(void *), void *) = pthread_create;
int (*vxs_real_join)(pthread_t, void **) = pthread_join;

enum tstate { TS_NONE, TS_RUNNABLE, TS_BLOCKED_JOIN, TS_FINISHED };

struct vth {
    enum tstate st;
    int join_target;
    pthread_t th;
    void *(*fn)(void *);
    void *arg;
    void *ret;
};

static struct vth T[VXS_MAXT];
static int nthreads;
static volatile int turn = 0;
static pthread_mutex_t mtx = PTHREAD_MUTEX_INITIALIZER;
static pthread_cond_t cv = PTHREAD_COND_INITIALIZER;
static __thread int self_tid = 0;
static int preemptions;
static bool deadlock;

int vxs_self(void) { return self_tid; }
int vxs_preemptions(void) { return preemptions; }
bool vxs_deadlocked(void) { return deadlock; }

static bool enabled(int t)
{
    if (T[t].st == TS_RUNNABLE) {
        return true;
    }
    if (T[t].st == TS_BLOCKED_JOIN && T[T[t].join_target].st == TS_FINISHED) {
        return true;
    }
    return false;
}

static void wait_for_turn(int me)
{
    pthread_mutex_lock(&mtx);
    while (turn != me) {
        pthread_cond_wait(&cv, &mtx);
    }
    pthread_mutex_unlock(&mtx);
}

static void hand_over(int to)
{
    pthread_mutex_lock(&mtx);
    turn = to;
    pthread_cond_broadcast(&cv);
    pthread_mutex_unlock(&mtx);
}

/* pick the next thread to run; cur_can_continue: the calling thread is still enabled */
static int pick(int cur, bool cur_can_continue, const char *label)
{
    int list[VXS_MAXT], n = 0;
    if (cur_can_continue) {
        list[n++] = cur;
    }
    for (int t = 0; t < nthreads; t++) {
        if (t != cur && enabled(t)) {
            list[n++] = t;
        }
    }
    if (n == 0) {
        return -1;
    }
    int c;
    if (cur_can_continue) {
        c = vx_choose(n, label);
        if (c != 0) {
            preemptions++;
        }
    }
    else {
        c = vx_choose_free(n, label);
    }
    return list[c];
}

void vxs_begin(void)
{
    memset(T, 0, sizeof T);
    nthreads = 1;
    T[0].st = TS_RUNNABLE;
    self_tid = 0;
    turn = 0;
    preemptions = 0;
    deadlock = false;
}

static void *trampoline(void *arg)
{
    const int me = (int)(long)arg;
    self_tid = me;
    wait_for_turn(me);
    T[me].ret = T[me].fn(T[me].arg);
    /* finished: hand the processor to somebody else */
    T[me].st = TS_FINISHED;
    const int next = pick(me, false, "thread-exit");
    if (next < 0) {
        bool all = true;
        for (int t = 0; t < nthreads; t++) {
            all = all && T[t].st == TS_FINISHED;
        }
        if (!all) {
            deadlock = true;
            vx_violation("sched:deadlock", "no thread can run and not all have finished");
            hand_over(0);
        }
        return NULL;
    }
    if (T[next].st == TS_BLOCKED_JOIN) {
        T[next].st = TS_RUNNABLE;
    }
    hand_over(next);
    return NULL;
}

int vxs_spawn(pthread_t *th, void *(*fn)(void *), void *arg)
{
    if (nthreads >= VXS_MAXT) {
        fprintf(stdout, "VX-FATAL: too many scheduled threads\n");
        fflush(stdout);
        _Exit(2);
    }
    const int t = nthreads++;
    T[t].st = TS_RUNNABLE;
    T[t].fn = fn;
    T[t].arg = arg;
    vxs_real_create(&T[t].th, NULL, trampoline, (void *)(long)t);
    if (th) {
        *th = T[t].th;
    }
    return t;
}

void vxs_point(const char *label)
{
    const int me = self_tid;
    const int next = pick(me, true, label);
    if (next != me) {
        if (T[next].st == TS_BLOCKED_JOIN) {
            T[next].st = TS_RUNNABLE;
        }
        hand_over(next);
        wait_for_turn(me);
    }
}

void vxs_join_tid(int tid)
{
    const int me = self_tid;
    if (T[tid].st != TS_FINISHED) {
        T[me].st = TS_BLOCKED_JOIN;
        T[me].join_target = tid;
        const int next = pick(me, false, "join");
        if (next < 0) {
            deadlock = true;
            vx_violation("sched:deadlock", "thread %d joins %d but nobody can run", me, tid);
            T[me].st = TS_RUNNABLE;
            return;
        }
        if (T[next].st == TS_BLOCKED_JOIN) {
            T[next].st = TS_RUNNABLE;
        }
        hand_over(next);
        wait_for_turn(me);
        T[me].st = TS_RUNNABLE;
    }
    vxs_real_join(T[tid].th, NULL);
}

int vxs_tid_of(pthread_t th)
{
    for (int t = 1; t < nthreads; t++) {
        if (pthread_equal(T[t].th, th)) {
            return t;
        }
    }
    return -1;
}

void vxs_end(void)
{
    /* nothing to do: threads were joined by the harness */
}
