/*
 * vx_sched - serialising scheduler for real pthreads (mode T): only one thread
 * runs at a time; at every scheduling point the explorer decides which enabled
 * thread runs next. Switching away from a thread that could continue costs one
 * preemption (vx_choose), a forced switch is free (vx_choose_free).
 */
#ifndef VX_SCHED_H
#define VX_SCHED_H

#include <pthread.h>
#include <stdbool.h>

#define VXS_MAXT 8

/* how real threads are created (a harness that wraps pthread_create sets this to the real one) */
extern int (*vxs_real_create)(pthread_t *, const pthread_attr_t *, void *(*)(void *), void *);
extern int (*vxs_real_join)(pthread_t, void **);

void vxs_begin(void);                 /* start of an execution: the caller becomes thread 0 and runs */
int vxs_spawn(pthread_t *th, void *(*fn)(void *), void *arg); /* returns the scheduler's thread id */
void vxs_point(const char *label);    /* scheduling point of the calling (running) thread */
void vxs_join_tid(int tid);           /* block the calling thread until thread tid has finished */
int vxs_tid_of(pthread_t th);         /* -1 if unknown */
void vxs_end(void);                   /* end of execution: all threads must have finished and been joined */
int vxs_self(void);
int vxs_preemptions(void);
bool vxs_deadlocked(void);

#endif
