/*
 * vx_explore - stateless, replay-based, deviation-bounded depth-first explorer
 * over choice sequences, run on a pool of forked worker processes.
 *
 * A harness supplies run_one(): it executes ONE complete execution of the real
 * code from a fresh state and calls vx_choose() whenever it needs a decision.
 * The explorer enumerates every choice sequence whose deviation cost is within
 * the bound (choice 0 is the canonical default and costs nothing; every other
 * alternative of a vx_choose() point costs 1, of a vx_choose_free() point 0).
 */
#ifndef VX_EXPLORE_H
#define VX_EXPLORE_H

#include <stdbool.h>
#include <stdint.h>
#include <stddef.h>

#define VX_MAXPTS 768 /* max choice points in one execution */

/* Decision points. n >= 1; returns a value in [0, n). */
int vx_choose(int n, const char *label);      /* alternatives cost 1 deviation */
int vx_choose_free(int n, const char *label); /* alternatives cost nothing     */

/* Oracle reporting. The execution continues; the first violation per signature
 * and execution is recorded together with the choice sequence. */
void vx_violation(const char *sig, const char *fmt, ...)
    __attribute__((format(printf, 2, 3)));
int vx_violations_this_exec(void);

/* Coverage accounting */
void vx_state(uint64_t fingerprint); /* a reached state (distinct ones are counted) */
void vx_transition(void);            /* one executed operation / event              */
void vx_transitions(uint64_t n);
#define VX_NCOUNTERS 4
void vx_counter(int idx, uint64_t n);   /* harness-defined statistics, reported as "counters" in the result  */
void vx_outcome(uint64_t v);         /* mixed into this execution's outcome signature */

/* Visited-state pruning: returns true if this fingerprint was already claimed
 * by an earlier (or concurrent) execution; the harness should then end the
 * execution as fast as it can (no further choices are explored below it). */
bool vx_visited(uint64_t fingerprint);
void vx_cut(void); /* mark the execution as cut: choice points after this are not expanded */

/* Human-readable trace, recorded only for sampled executions and in replay */
bool vx_tracing(void);
void vx_trace(const char *fmt, ...) __attribute__((format(printf, 1, 2)));

/* Harness options: --opt key=value on the command line */
const char *vx_opt(const char *key, const char *dflt);
long vx_opt_int(const char *key, long dflt);

/* Hash helpers */
static inline uint64_t vx_mix(uint64_t h, uint64_t v)
{
    h ^= v + 0x9e3779b97f4a7c15ull + (h << 6) + (h >> 2);
    h *= 0xff51afd7ed558ccdull;
    h ^= h >> 33;
    return h;
}
uint64_t vx_hash_bytes(uint64_t h, const void *p, size_t n);
uint64_t vx_hash_str(uint64_t h, const char *s);

struct vx_harness {
    const char *name;
    void (*run_one)(void);       /* one complete execution from a fresh state   */
    void (*worker_init)(void);   /* optional: once per worker process           */
    void (*global_init)(void);   /* optional: once in the master before forking */
};

int vx_main(int argc, char **argv, const struct vx_harness *h);

/* number of the current execution inside this worker (for recycling logic) */
uint64_t vx_worker_exec_count(void);

#endif
