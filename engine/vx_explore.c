/*
 * vx_explore.c - see vx_explore.h
 *
 * Process structure: one master, W forked workers. All bookkeeping lives in
 * MAP_SHARED memory so that the master can take over the unfinished work of a
 * worker that was killed by the code under test (library abort, sanitizer
 * report, signal, hang).
 */
#ifndef _GNU_SOURCE
#define _GNU_SOURCE
#endif
#include "vx_explore.h"

#include <errno.h>
#include <execinfo.h>
#include <link.h>
#include <fcntl.h>
#include <signal.h>
#include <stdarg.h>
#include <stdio.h>
#include <stdlib.h>
#include <string.h>
#include <sys/mman.h>
#include <sys/prctl.h>
#include <sys/stat.h>
#include <sys/wait.h>
#include <time.h>
#include <unistd.h>

#define VX_MAXW 32
#define VX_STACK 160
#define VX_QCAP (1u << 13)
#define VX_MAXVIOL 64
#define VX_MAXCRASH 32
#define VX_MAXSAMPLES 6
#define VX_TRACEBUF 6000
#define VX_EXIT_RECYCLE 17

struct item {
    uint16_t len;   /* fixed prefix length */
    uint16_t npts;  /* points recorded so far */
    uint16_t devs;  /* deviation cost of the prefix */
    uint16_t cur_i, cur_alt; /* expansion cursor */
    uint16_t cut;   /* points >= cut are not expanded */
    uint8_t kind;   /* 0 = run then expand, 1 = expand only */
    uint8_t running;
    uint8_t choice[VX_MAXPTS];
    uint8_t arity[VX_MAXPTS];
    uint8_t cost[VX_MAXPTS];
    uint8_t lhash[VX_MAXPTS];
};

struct viol {
    char sig[200];
    char detail[600];
    uint16_t len, devs;
    uint8_t choice[VX_MAXPTS];
    uint64_t count;
};

struct crash {
    char reason[400];
    uint16_t len;
    uint8_t choice[VX_MAXPTS];
    uint64_t count;
};

struct sample {
    uint16_t len;
    uint8_t choice[VX_MAXPTS];
    char trace[VX_TRACEBUF];
};

struct wslot {
    volatile pid_t pid;
    volatile int busy;
    volatile int depth;
    volatile uint64_t run_start_ns;
    uint64_t nexec;
    struct item stack[VX_STACK];
};

struct shared {
    volatile int qlock;
    volatile uint32_t qhead, qtail;
    volatile int64_t outstanding;
    volatile int stop, done;
    int bound;
    uint64_t executions, transitions, cuts, maxpts, exec_cap;
    volatile int vlock;
    int nviol;
    uint64_t viol_total;
    struct viol viol[VX_MAXVIOL];
    int ncrash;
    uint64_t crash_total;
    struct crash crash[VX_MAXCRASH];
    int nsamples;
    struct sample samples[VX_MAXSAMPLES];
    uint64_t nstates, noutcomes;
    uint64_t counters[VX_NCOUNTERS];
    int states_saturated;
    struct wslot w[VX_MAXW];
    struct item q[VX_QCAP];
};

static struct shared *S;
static uint64_t *g_states, *g_outcomes, *g_visited;
static uint64_t g_states_mask, g_outcomes_mask, g_visited_mask;

static const struct vx_harness *H;
static int g_w = -1;              /* worker index, -1 in master / replay */
static struct item *g_cur;        /* frame being run */
static int g_pos;
static bool g_tracing;
static char g_tracebuf[VX_TRACEBUF];
static size_t g_tracelen;
static uint64_t g_outcome;
static int g_viol_this_exec;
static bool g_replay;
static uint64_t g_nexec_worker;
static char g_errpath[256];

/* options */
static int o_workers = 16, o_bmin = 0, o_bmax = 0;
static double o_deadline = 1e9, o_run_timeout = 30.0;
static long o_recycle = 2000;
static const char *o_out = NULL, *o_replay = NULL;
static uint64_t o_maxexec = 0;
static int o_state_bits = 22;
static char *o_kv[64];
static int o_nkv;

static uint64_t now_ns(void)
{
    struct timespec ts;
    clock_gettime(CLOCK_MONOTONIC, &ts);
    return (uint64_t)ts.tv_sec * 1000000000ull + (uint64_t)ts.tv_nsec;
}

uint64_t vx_hash_bytes(uint64_t h, const void *p, size_t n)
{
    const unsigned char *b = p;
    for (size_t i = 0; i < n; i++) {
        h = (h ^ b[i]) * 0x100000001b3ull;
    }
    return vx_mix(h, n);
}

uint64_t vx_hash_str(uint64_t h, const char *s)
{
    return vx_hash_bytes(h, s, strlen(s));
}

static void lock(volatile int *l)
{
    /* the lock word holds the pid of its owner so that the master can release a
     * lock whose owner was killed inside the critical section */
    const int me = (int)getpid();
    int exp = 0;
    while (!__atomic_compare_exchange_n(l, &exp, me, false, __ATOMIC_ACQUIRE, __ATOMIC_RELAXED)) {
        while (*l) {
            __builtin_ia32_pause();
        }
        exp = 0;
    }
}

static void break_lock_of(volatile int *l, pid_t dead)
{
    int exp = (int)dead;
    __atomic_compare_exchange_n(l, &exp, 0, false, __ATOMIC_ACQ_REL, __ATOMIC_RELAXED);
}

static void unlock(volatile int *l)
{
    __atomic_store_n(l, 0, __ATOMIC_RELEASE);
}

const char *vx_opt(const char *key, const char *dflt)
{
    size_t kl = strlen(key);
    for (int i = 0; i < o_nkv; i++) {
        if (strncmp(o_kv[i], key, kl) == 0 && o_kv[i][kl] == '=') {
            return o_kv[i] + kl + 1;
        }
    }
    return dflt;
}

long vx_opt_int(const char *key, long dflt)
{
    const char *v = vx_opt(key, NULL);
    return v ? strtol(v, NULL, 0) : dflt;
}

static void fatal(const char *fmt, ...)
{
    va_list ap;
    va_start(ap, fmt);
    fprintf(stdout, "VX-FATAL: ");
    vfprintf(stdout, fmt, ap);
    fprintf(stdout, "\n");
    va_end(ap);
    fflush(stdout);
    _exit(2);
}

/* ---------------------------------------------------------------- sets */

static bool set_insert(uint64_t *tab, uint64_t mask, uint64_t v, uint64_t *counter)
{
    if (v == 0) {
        v = 0x9e3779b97f4a7c15ull;
    }
    uint64_t i = vx_mix(0x1234, v) & mask;
    for (uint64_t probe = 0; probe < 4096; probe++) {
        uint64_t cur = __atomic_load_n(&tab[i], __ATOMIC_RELAXED);
        if (cur == v) {
            return false;
        }
        if (cur == 0) {
            uint64_t exp = 0;
            if (__atomic_compare_exchange_n(&tab[i], &exp, v, false,
                                            __ATOMIC_RELAXED, __ATOMIC_RELAXED)) {
                __atomic_add_fetch(counter, 1, __ATOMIC_RELAXED);
                return true;
            }
            if (exp == v) {
                return false;
            }
        }
        i = (i + 1) & mask;
    }
    S->states_saturated = 1;
    return true;
}

static uint64_t g_find_fp;
static int g_find_done;

void vx_state(uint64_t fp)
{
    if (g_find_fp && fp == g_find_fp && !g_find_done && g_cur) {
        g_find_done = 1;
        char buf[4096];
        int n = snprintf(buf, sizeof buf, "FOUND-FP %016llx pos=%d choices=", (unsigned long long)fp, g_pos);
        for (int i = 0; i < g_pos && n < 4000; i++) {
            n += snprintf(buf + n, sizeof buf - (size_t)n, "%s%d", i ? "," : "", g_cur->choice[i]);
        }
        buf[n++] = '\n';
        if (write(1, buf, (size_t)n)) { }
    }
    if (S->nstates < (g_states_mask >> 1) + (g_states_mask >> 2)) {
        set_insert(g_states, g_states_mask, fp, &S->nstates);
    }
    else {
        S->states_saturated = 1;
    }
}

static uint64_t g_ntrans_local;

void vx_transition(void)
{
    g_ntrans_local++;
}

void vx_transitions(uint64_t n)
{
    g_ntrans_local += n;
}

void vx_counter(int idx, uint64_t n)
{
    if (idx >= 0 && idx < VX_NCOUNTERS && S && !g_replay) {
        __atomic_add_fetch(&S->counters[idx], n, __ATOMIC_RELAXED);
    }
}

void vx_outcome(uint64_t v)
{
    g_outcome = vx_mix(g_outcome, v);
}

static uint64_t g_visited_count;

bool vx_visited(uint64_t fp)
{
    if (g_replay || g_cur == NULL || g_pos < g_cur->len) {
        return false;
    }
    const int remaining = S->bound - g_cur->devs;
    fp = vx_mix(fp, (uint64_t)remaining + 77);
    return !set_insert(g_visited, g_visited_mask, fp, &g_visited_count);
}

void vx_cut(void)
{
    if (g_cur != NULL && g_cur->cut == 0xFFFF) {
        g_cur->cut = (uint16_t)g_pos;
        __atomic_add_fetch(&S->cuts, 1, __ATOMIC_RELAXED);
    }
}

bool vx_tracing(void)
{
    return g_tracing;
}

void vx_trace(const char *fmt, ...)
{
    if (!g_tracing) {
        return;
    }
    va_list ap;
    va_start(ap, fmt);
    if (g_tracelen + 2 < sizeof g_tracebuf) {
        int r = vsnprintf(g_tracebuf + g_tracelen, sizeof g_tracebuf - g_tracelen - 1, fmt, ap);
        if (r > 0) {
            g_tracelen += (size_t)r;
            if (g_tracelen >= sizeof g_tracebuf - 1) {
                g_tracelen = sizeof g_tracebuf - 2;
            }
        }
    }
    va_end(ap);
    if (g_replay) {
        va_start(ap, fmt);
        vfprintf(stdout, fmt, ap);
        va_end(ap);
    }
}

uint64_t vx_worker_exec_count(void)
{
    return g_nexec_worker;
}

/* ---------------------------------------------------------------- ThreadSanitizer as an oracle */
#if defined(__SANITIZE_THREAD__)
#define VX_TSAN 1
#elif defined(__has_feature)
#if __has_feature(thread_sanitizer)
#define VX_TSAN 1
#endif
#endif
#ifdef VX_TSAN
static volatile int g_tsan_reports;
/* called by the ThreadSanitizer runtime for every report it prints */
void __tsan_on_report(void *rep);
void __tsan_on_report(void *rep)
{
    (void)rep;
    g_tsan_reports++;
}

static void tsan_check(int before)
{
    if (g_tsan_reports == before) {
        return;
    }
    char buf[8192];
    char what[200] = "data race";
    buf[0] = 0;
    fflush(stderr);
    FILE *fp = fopen(g_errpath, "r");
    if (fp) {
        fseek(fp, 0, SEEK_END);
        long sz = ftell(fp);
        long off = sz > (long)sizeof buf - 1 ? sz - ((long)sizeof buf - 1) : 0;
        fseek(fp, off, SEEK_SET);
        size_t r = fread(buf, 1, sizeof buf - 1, fp);
        buf[r] = 0;
        fclose(fp);
        const char *p = strstr(buf, "SUMMARY: ThreadSanitizer: ");
        if (p) {
            p += strlen("SUMMARY: ThreadSanitizer: ");
            /* "data race /path/file.c:123:5 in function" -> keep kind and function */
            const char *in = strstr(p, " in ");
            size_t kl = strcspn(p, "/\n");
            size_t fl = in ? strcspn(in + 4, " \n") : 0;
            snprintf(what, sizeof what, "%.*sin %.*s", (int)(kl > 60 ? 60 : kl), p, (int)(fl > 80 ? 80 : fl), in ? in + 4 : "?");
        }
    }
    vx_violation("tsan:thread-sanitizer-report", "ThreadSanitizer reported %d problem(s) during this execution: %s", g_tsan_reports - before, what);
}
#endif

/* ---------------------------------------------------------------- choices */

static int choose(int n, const char *label, int cost)
{
    if (n < 1 || n > 255) {
        fatal("vx_choose(%d, %s): arity out of range", n, label);
    }
    struct item *f = g_cur;
    if (g_pos >= VX_MAXPTS) {
        fatal("more than %d choice points in one execution (label %s)", VX_MAXPTS, label);
    }
    const uint8_t lh = (uint8_t)(vx_hash_str(7, label) & 0xff);
    int c = 0;
    if (g_pos < f->len) {
        c = f->choice[g_pos];
        if (c >= n) {
            fatal("nondeterministic replay: point %d label %s arity %d but prefix says %d",
                  g_pos, label, n, c);
        }
        /* positions inside the prefix were recorded by an ancestor run */
        if (f->arity[g_pos] != 0 && (f->arity[g_pos] != n || f->lhash[g_pos] != lh)) {
            fatal("nondeterministic replay: point %d label %s arity %d/%d lhash %u/%u",
                  g_pos, label, n, f->arity[g_pos], lh, f->lhash[g_pos]);
        }
    }
    else {
        f->choice[g_pos] = 0;
    }
    f->arity[g_pos] = (uint8_t)n;
    f->cost[g_pos] = (uint8_t)cost;
    f->lhash[g_pos] = lh;
    g_pos++;
    f->npts = (uint16_t)g_pos;
    if (g_tracing) {
        vx_trace("    [choice %d: %s -> %d of %d]\n", g_pos - 1, label, c, n);
    }
    return c;
}

int vx_choose(int n, const char *label)
{
    return choose(n, label, 1);
}

int vx_choose_free(int n, const char *label)
{
    return choose(n, label, 0);
}

int vx_violations_this_exec(void)
{
    return g_viol_this_exec;
}

void vx_violation(const char *sig, const char *fmt, ...)
{
    char detail[600];
    va_list ap;
    va_start(ap, fmt);
    vsnprintf(detail, sizeof detail, fmt, ap);
    va_end(ap);
    g_viol_this_exec++;
    if (g_tracing) {
        vx_trace("  !! VIOLATION %s: %s\n", sig, detail);
    }
    if (g_replay) {
        printf("SIG %s\n", sig);
        printf("DETAIL %s\n", detail);
        return;
    }
    struct item *f = g_cur;
    lock(&S->vlock);
    S->viol_total++;
    int k;
    for (k = 0; k < S->nviol; k++) {
        if (strncmp(S->viol[k].sig, sig, sizeof S->viol[k].sig - 1) == 0) {
            break;
        }
    }
    if (k == S->nviol && k < VX_MAXVIOL) {
        S->nviol++;
        memset(&S->viol[k], 0, sizeof S->viol[k]);
        snprintf(S->viol[k].sig, sizeof S->viol[k].sig, "%s", sig);
        S->viol[k].devs = 0xFFFF;
        S->viol[k].len = 0xFFFF;
    }
    if (k < VX_MAXVIOL) {
        struct viol *v = &S->viol[k];
        v->count++;
        if (f->devs < v->devs || (f->devs == v->devs && f->len < v->len)) {
            v->devs = f->devs;
            v->len = f->len;
            memcpy(v->choice, f->choice, f->len);
            snprintf(v->detail, sizeof v->detail, "%s", detail);
        }
    }
    unlock(&S->vlock);
}

/* ---------------------------------------------------------------- queue */

static bool q_push(const struct item *it)
{
    bool ok = false;
    lock(&S->qlock);
    if (S->qtail - S->qhead < VX_QCAP) {
        memcpy(&S->q[S->qtail % VX_QCAP], it, sizeof *it);
        S->qtail++;
        ok = true;
    }
    unlock(&S->qlock);
    return ok;
}

static bool q_pop_into_slot(struct wslot *ws)
{
    bool ok = false;
    lock(&S->qlock);
    if (S->qtail != S->qhead) {
        memcpy(&ws->stack[0], &S->q[S->qhead % VX_QCAP], sizeof(struct item));
        S->qhead++;
        ws->depth = 1;
        ws->busy = 1;
        ok = true;
    }
    unlock(&S->qlock);
    return ok;
}

static uint32_t q_len(void)
{
    return S->qtail - S->qhead;
}

/* ---------------------------------------------------------------- running */

static void reset_frame_for_run(struct item *f)
{
    f->npts = 0;
    f->cut = 0xFFFF;
    f->running = 1;
}

static void run_frame(struct item *f, bool trace)
{
    g_cur = f;
    g_pos = 0;
    g_outcome = 0x5151;
    g_viol_this_exec = 0;
    g_tracing = trace;
    g_tracelen = 0;
    g_tracebuf[0] = 0;
    g_ntrans_local = 0;
    reset_frame_for_run(f);
    if (g_w >= 0) {
        S->w[g_w].run_start_ns = now_ns();
    }
#ifdef VX_TSAN
    const int tsan_before = g_tsan_reports;
#endif
    H->run_one();
#ifdef VX_TSAN
    tsan_check(tsan_before);
#endif
    if (g_pos < f->len && vx_violations_this_exec() > 0) {
        /* the harness reported a violation and stopped before the end of the prefix (a finding of a free-running
         * phase can depend on timing and need not have occurred in the parent run): the report stands, and this
         * execution has no children */
    }
    else if (g_pos < f->len) {
        char pre[400];
        int l = 0;
        for (int i = 0; i < f->len && l < (int)sizeof pre - 8; i++) {
            l += snprintf(pre + l, sizeof pre - (size_t)l, "%s%d", i ? "," : "", (int)f->choice[i]);
        }
        fatal("nondeterministic replay: execution ended after %d points, prefix has %d (prefix %s)",
              g_pos, f->len, pre);
    }
    f->running = 0;
    if (g_w >= 0) {
        S->w[g_w].run_start_ns = 0;
    }
    g_nexec_worker++;
    if (!g_replay) {
        __atomic_add_fetch(&S->executions, 1, __ATOMIC_RELAXED);
        __atomic_add_fetch(&S->transitions, g_ntrans_local, __ATOMIC_RELAXED);
        set_insert(g_outcomes, g_outcomes_mask, g_outcome, &S->noutcomes);
        if ((uint64_t)f->npts > S->maxpts) {
            S->maxpts = f->npts;
        }
        if (trace) {
            lock(&S->vlock);
            if (S->nsamples < VX_MAXSAMPLES) {
                struct sample *sp = &S->samples[S->nsamples++];
                sp->len = f->npts;
                memcpy(sp->choice, f->choice, f->npts);
                memcpy(sp->trace, g_tracebuf, sizeof sp->trace);
                sp->trace[sizeof sp->trace - 1] = 0;
            }
            unlock(&S->vlock);
        }
    }
    g_tracing = false;
}

/* find the next child of frame f within the bound; false if none */
static bool next_child(struct item *f, struct item *child)
{
    uint16_t i = f->cur_i, alt = f->cur_alt;
    if (i < f->len) {
        i = f->len;
        alt = 1;
    }
    const uint16_t lim = (f->cut < f->npts) ? f->cut : f->npts;
    while (i < lim) {
        if (alt < f->arity[i] && f->devs + f->cost[i] <= S->bound) {
            /* make the child */
            child->len = (uint16_t)(i + 1);
            child->npts = 0;
            child->devs = (uint16_t)(f->devs + f->cost[i]);
            child->cur_i = 0;
            child->cur_alt = 0;
            child->cut = 0xFFFF;
            child->kind = 0;
            child->running = 0;
            memcpy(child->choice, f->choice, f->len);
            memset(child->choice + f->len, 0, (size_t)(i - f->len));
            child->choice[i] = (uint8_t)alt;
            memcpy(child->arity, f->arity, (size_t)i + 1);
            memcpy(child->lhash, f->lhash, (size_t)i + 1);
            memcpy(child->cost, f->cost, (size_t)i + 1);
            f->cur_i = i;
            f->cur_alt = (uint16_t)(alt + 1);
            return true;
        }
        i++;
        alt = 1;
    }
    f->cur_i = lim;
    f->cur_alt = 1;
    return false;
}

static void offload_stack(struct wslot *ws, bool self)
{
    /* push every frame as an expand-only item; used for recycling and, by the
     * master, for the stack of a dead worker */
    const int depth = ws->depth;
    for (int d = 0; d < depth; d++) {
        struct item *f = &ws->stack[d];
        if (f->kind == 0 && !f->running && f->npts == 0 && !self) {
            /* never started (cannot normally happen) */
        }
        if (f->kind == 0 && f->running) {
            f->kind = 1;
            f->running = 0;
            f->cur_i = f->len;
            f->cur_alt = 1;
        }
        else if (f->kind == 0) {
            /* popped but not started: keep it as a run item */
        }
        __atomic_add_fetch(&S->outstanding, 1, __ATOMIC_RELAXED);
        while (!q_push(f)) {
            usleep(1000);
        }
    }
    ws->depth = 0;
    ws->busy = 0;
    __atomic_sub_fetch(&S->outstanding, 1, __ATOMIC_RELAXED);
}

static void worker_dfs(struct wslot *ws)
{
    while (ws->depth > 0) {
        if (S->stop) {
            ws->depth = 0;
            break;
        }
        struct item *f = &ws->stack[ws->depth - 1];
        if (f->kind == 0) {
            const uint64_t k = g_nexec_worker;
            const bool trace = (g_w == 0 && (k == 0 || k == 7)) || (g_w == 1 && k == 300)
                               || (g_w == 2 && k == 1500) || (g_w == 3 && k == 40)
                               || (g_w == 4 && k == 5);
            run_frame(f, trace);
            f->kind = 1;
            f->cur_i = f->len;
            f->cur_alt = 1;
            if (S->exec_cap && S->executions >= S->exec_cap) {
                S->stop = 2;
            }
            if (o_recycle > 0 && g_nexec_worker >= (uint64_t)o_recycle) {
                offload_stack(ws, true);
                _exit(VX_EXIT_RECYCLE);
            }
            continue;
        }
        if (ws->depth >= VX_STACK - 1) {
            fatal("explorer stack overflow (depth %d)", ws->depth);
        }
        struct item *child = &ws->stack[ws->depth];
        if (!next_child(f, child)) {
            ws->depth--;
            continue;
        }
        if (q_len() < (uint32_t)(4 * o_workers)) {
            __atomic_add_fetch(&S->outstanding, 1, __ATOMIC_RELAXED);
            if (q_push(child)) {
                continue;
            }
            __atomic_sub_fetch(&S->outstanding, 1, __ATOMIC_RELAXED);
        }
        ws->depth++;
    }
    ws->busy = 0;
    __atomic_sub_fetch(&S->outstanding, 1, __ATOMIC_RELAXED);
}

/* --opt fptrap=1: run everything with the SSE exception mask cimba_run_experiment() gives its worker
 * threads (invalid operation and division by zero trap), so that a NaN or an infinity produced from finite
 * valid input inside the library ends the execution with SIGFPE, as it would inside an experiment */
static uintptr_t g_exe_base;

static int find_base(struct dl_phdr_info *info, size_t size, void *data)
{
    (void)size;
    (void)data;
    g_exe_base = (uintptr_t)info->dlpi_addr; /* first entry = the executable */
    return 1;
}

static void fpe_handler(int sig, siginfo_t *si, void *uc)
{
    (void)sig;
    (void)uc;
    void *pcs[24];
    const int n = backtrace(pcs, 24);
    char line[600];
    int l = snprintf(line, sizeof line, "VX-SIGFPE code=%d frames:", si->si_code);
    for (int i = 0; i < n && l < (int)sizeof line - 24; i++) {
        l += snprintf(line + l, sizeof line - (size_t)l, " %lx", (unsigned long)((uintptr_t)pcs[i] - g_exe_base));
    }
    l += snprintf(line + l, sizeof line - (size_t)l, "\n");
    if (write(2, line, (size_t)l) < 0) {
        _exit(3);
    }
    /* SA_RESETHAND: returning re-executes the instruction and the default action ends the process */
}

static void fp_mode(void)
{
#if defined(__x86_64__)
    if (vx_opt_int("fptrap", 0)) {
        dl_iterate_phdr(find_base, NULL);
        struct sigaction sa;
        memset(&sa, 0, sizeof sa);
        sa.sa_sigaction = fpe_handler;
        sa.sa_flags = SA_SIGINFO | SA_RESETHAND;
        sigaction(SIGFPE, &sa, NULL);
        __builtin_ia32_ldmxcsr(0x1d00);
    }
#endif
}

static void worker_main(int w)
{
    g_w = w;
    struct wslot *ws = &S->w[w];
    prctl(PR_SET_PDEATHSIG, SIGKILL);
    int fd = open(g_errpath, O_WRONLY | O_CREAT | O_TRUNC, 0644);
    if (fd >= 0) {
        dup2(fd, 2);
        close(fd);
    }
    fp_mode();
    if (H->worker_init) {
        H->worker_init();
    }
    for (;;) {
        if (S->done) {
            _exit(0);
        }
        if (!q_pop_into_slot(ws)) {
            usleep(300);
            continue;
        }
        worker_dfs(ws);
    }
}

/* ---------------------------------------------------------------- master */

static void classify(const char *path, int status, bool hang, char *out, size_t n)
{
    char buf[16384];
    buf[0] = 0;
    FILE *fp = fopen(path, "r");
    if (fp) {
        fseek(fp, 0, SEEK_END);
        long sz = ftell(fp);
        long off = sz > (long)sizeof buf - 1 ? sz - ((long)sizeof buf - 1) : 0;
        fseek(fp, off, SEEK_SET);
        size_t r = fread(buf, 1, sizeof buf - 1, fp);
        buf[r] = 0;
        fclose(fp);
    }
    char how[64];
    if (hang) {
        snprintf(how, sizeof how, "hang");
    }
    else if (WIFSIGNALED(status)) {
        snprintf(how, sizeof how, "signal %d", WTERMSIG(status));
    }
    else {
        snprintf(how, sizeof how, "exit %d", WEXITSTATUS(status));
    }
    const char *p;
    char what[300];
    what[0] = 0;
    if ((p = strstr(buf, "Assert \"")) != NULL) {
        /* "func (line):  Fatal: Assert "cond" failed, source file f.c" */
        const char *ls = p;
        while (ls > buf && ls[-1] != '\n') {
            ls--;
        }
        /* skip time + process name columns: find the function name = token before " (" */
        const char *fn = strstr(ls, " (");
        const char *fs = fn;
        while (fs && fs > ls && fs[-1] != '\t' && fs[-1] != ' ') {
            fs--;
        }
        char func[80] = "?";
        if (fn && fs && fn > fs && (size_t)(fn - fs) < sizeof func) {
            memcpy(func, fs, (size_t)(fn - fs));
            func[fn - fs] = 0;
        }
        const char *e = strstr(p, ", seed");
        size_t l = e ? (size_t)(e - p) : strcspn(p, "\n");
        if (l > 200) {
            l = 200;
        }
        snprintf(what, sizeof what, "library-assert in %s: %.*s", func, (int)l, p);
    }
    else if ((p = strstr(buf, "ERROR: AddressSanitizer: ")) != NULL) {
        p += strlen("ERROR: AddressSanitizer: ");
        size_t l = strcspn(p, " \n");
        char kind[80];
        snprintf(kind, sizeof kind, "%.*s", (int)(l > 70 ? 70 : l), p);
        /* first library frame */
        char frame[120] = "?";
        const char *q = p;
        while ((q = strstr(q, " in ")) != NULL) {
            q += 4;
            size_t fl = strcspn(q, " \n");
            if (strncmp(q, "cm", 2) == 0 || strncmp(q, "wake", 4) == 0
                || strncmp(q, "hash", 4) == 0 || strncmp(q, "heap", 4) == 0) {
                snprintf(frame, sizeof frame, "%.*s", (int)(fl > 100 ? 100 : fl), q);
                break;
            }
        }
        snprintf(what, sizeof what, "asan %s in %s", kind, frame);
    }
    else if ((p = strstr(buf, "runtime error: ")) != NULL) {
        const char *ls = p;
        while (ls > buf && ls[-1] != '\n') {
            ls--;
        }
        size_t l = strcspn(ls, "\n");
        const char *base = ls;
        for (const char *c = ls; c < p; c++) {
            if (*c == '/') {
                base = c + 1;
            }
        }
        l -= (size_t)(base - ls);
        snprintf(what, sizeof what, "ubsan %.*s", (int)(l > 250 ? 250 : l), base);
    }
    else if ((p = strstr(buf, "VX-SIGFPE code=")) != NULL) {
        /* symbolise the frames (offsets into this same executable) and name the first library function */
        const int code = atoi(p + strlen("VX-SIGFPE code="));
        const char *fr = strstr(p, "frames:");
        char cmd[900];
        int l = snprintf(cmd, sizeof cmd, "addr2line -f -e /proc/%d/exe", (int)getpid());
        if (fr) {
            fr += 7;
            size_t fl = strcspn(fr, "\n");
            for (size_t i = 0; i < fl && l < (int)sizeof cmd - 2; i++) {
                if (fr[i] == ' ') {
                    l += snprintf(cmd + l, sizeof cmd - (size_t)l, " 0x");
                }
                else {
                    cmd[l++] = fr[i];
                    cmd[l] = 0;
                }
            }
        }
        snprintf(cmd + l, sizeof cmd - (size_t)l, " 2>/dev/null");
        char func[100] = "?";
        FILE *pp = popen(cmd, "r");
        if (pp) {
            char ln[300];
            while (fgets(ln, sizeof ln, pp)) {
                if (!strncmp(ln, "cm", 2) || !strncmp(ln, "cimba", 5)) {
                    ln[strcspn(ln, "\n")] = 0;
                    snprintf(func, sizeof func, "%.90s", ln);
                    break;
                }
            }
            pclose(pp);
        }
        snprintf(what, sizeof what, "floating-point trap (%s) in %s",
                 code == FPE_FLTDIV ? "division by zero" : code == FPE_FLTINV ? "invalid operation" : "other", func);
    }
    else if ((p = strstr(buf, "VX-FATAL")) != NULL) {
        size_t l = strcspn(p, "\n");
        snprintf(what, sizeof what, "%.*s", (int)(l > 250 ? 250 : l), p);
    }
    else {
        snprintf(what, sizeof what, "no diagnostic");
    }
    snprintf(out, n, "%s (%s)", what, how);
}

static void spawn(int w)
{
    snprintf(g_errpath, sizeof g_errpath, "%s.w%d.err", o_out ? o_out : "/dev/null", w);
    fflush(stdout);
    pid_t p = fork();
    if (p < 0) {
        fatal("fork failed");
    }
    if (p == 0) {
        worker_main(w);
        _exit(0);
    }
    S->w[w].pid = p;
}

static void record_crash(struct wslot *ws, const char *reason)
{
    if (ws->depth <= 0) {
        return;
    }
    struct item *f = &ws->stack[ws->depth - 1];
    S->crash_total++;
    int k;
    for (k = 0; k < S->ncrash; k++) {
        if (strcmp(S->crash[k].reason, reason) == 0) {
            break;
        }
    }
    if (k == S->ncrash && k < VX_MAXCRASH) {
        S->ncrash++;
        memset(&S->crash[k], 0, sizeof S->crash[k]);
        snprintf(S->crash[k].reason, sizeof S->crash[k].reason, "%s", reason);
        S->crash[k].len = 0xFFFF;
    }
    if (k < VX_MAXCRASH) {
        S->crash[k].count++;
        if (f->len < S->crash[k].len) {
            S->crash[k].len = f->len;
            memcpy(S->crash[k].choice, f->choice, f->len);
        }
    }
}

static void json_str(FILE *fp, const char *s)
{
    fputc('"', fp);
    for (; *s; s++) {
        unsigned char c = (unsigned char)*s;
        if (c == '"' || c == '\\') {
            fputc('\\', fp);
            fputc(c, fp);
        }
        else if (c == '\n') {
            fputs("\\n", fp);
        }
        else if (c == '\t') {
            fputs("\\t", fp);
        }
        else if (c < 0x20) {
            fprintf(fp, "\\u%04x", c);
        }
        else {
            fputc(c, fp);
        }
    }
    fputc('"', fp);
}

static void json_choices(FILE *fp, const uint8_t *c, int n)
{
    fputc('[', fp);
    for (int i = 0; i < n; i++) {
        fprintf(fp, "%s%d", i ? "," : "", c[i]);
    }
    fputc(']', fp);
}

static void *shm(size_t n)
{
    void *p = mmap(NULL, n, PROT_READ | PROT_WRITE,
                   MAP_SHARED | MAP_ANONYMOUS | MAP_NORESERVE, -1, 0);
    if (p == MAP_FAILED) {
        fatal("mmap %zu failed", n);
    }
    return p;
}

static int parse_choices(const char *s, uint8_t *out)
{
    int n = 0;
    while (*s) {
        while (*s == ',' || *s == ' ' || *s == '[' || *s == ']' || (*s == '-' && (s[1] < '0' || s[1] > '9'))) {
            s++;
        }
        if (!*s) {
            break;
        }
        out[n++] = (uint8_t)strtol(s, (char **)&s, 10);
        if (n >= VX_MAXPTS) {
            break;
        }
    }
    return n;
}

int vx_main(int argc, char **argv, const struct vx_harness *h)
{
    H = h;
    for (int i = 1; i < argc; i++) {
        const char *a = argv[i];
        const char *v = (i + 1 < argc) ? argv[i + 1] : "";
        if (!strcmp(a, "--workers")) { o_workers = atoi(v); i++; }
        else if (!strcmp(a, "--bound-min")) { o_bmin = atoi(v); i++; }
        else if (!strcmp(a, "--bound-max")) { o_bmax = atoi(v); i++; }
        else if (!strcmp(a, "--bound")) { o_bmin = o_bmax = atoi(v); i++; }
        else if (!strcmp(a, "--deadline")) { o_deadline = atof(v); i++; }
        else if (!strcmp(a, "--run-timeout")) { o_run_timeout = atof(v); i++; }
        else if (!strcmp(a, "--recycle")) { o_recycle = atol(v); i++; }
        else if (!strcmp(a, "--out")) { o_out = v; i++; }
        else if (!strcmp(a, "--replay")) { o_replay = v; i++; }
        else if (!strcmp(a, "--max-exec")) { o_maxexec = strtoull(v, NULL, 0); i++; }
        else if (!strcmp(a, "--state-bits")) { o_state_bits = atoi(v); i++; }
        else if (!strcmp(a, "--opt")) { if (o_nkv < 64) o_kv[o_nkv++] = argv[i + 1]; i++; }
        else { fatal("unknown argument %s", a); }
    }
    if (getenv("VX_FIND_FP")) {
        g_find_fp = strtoull(getenv("VX_FIND_FP"), NULL, 16);
    }
    if (o_workers < 1) o_workers = 1;
    if (o_workers > VX_MAXW) o_workers = VX_MAXW;

    S = shm(sizeof *S);
    g_states_mask = (1ull << o_state_bits) - 1;
    g_outcomes_mask = (1ull << 21) - 1;
    g_visited_mask = (1ull << o_state_bits) - 1;
    g_states = shm((g_states_mask + 1) * 8);
    g_outcomes = shm((g_outcomes_mask + 1) * 8);
    g_visited = shm((g_visited_mask + 1) * 8);

    if (h->global_init) {
        h->global_init();
    }

    if (o_replay) {
        /* one execution with a verbose trace, same oracle */
        static struct item f;
        memset(&f, 0, sizeof f);
        f.len = (uint16_t)parse_choices(o_replay, f.choice);
        f.cut = 0xFFFF;
        g_replay = true;
        setvbuf(stdout, NULL, _IOLBF, 0); /* keep the trace if the replayed run dies */
        S->bound = 1 << 14;
        fp_mode();
        if (h->worker_init) {
            h->worker_init();
        }
        run_frame(&f, true);
        printf("OUTCOME %016llx\n", (unsigned long long)g_outcome);
        printf("VIOLATIONS %d\n", g_viol_this_exec);
        fflush(stdout);
        return g_viol_this_exec ? 1 : 0;
    }

    const uint64_t t0 = now_ns();
    int idle_deaths = 0;
    S->exec_cap = o_maxexec;
    int completed = o_bmin - 1;
    bool deadline_hit = false, cap_hit = false;
    uint64_t exec_last = 0, exec_total = 0;
    char perbound[2048];
    size_t pbl = 0;
    perbound[0] = 0;

    for (int b = o_bmin; b <= o_bmax; b++) {
        const uint64_t tb = now_ns();
        S->bound = b;
        S->stop = 0;
        S->done = 0;
        S->qhead = S->qtail = 0;
        S->executions = 0;
        memset(g_visited, 0, (g_visited_mask + 1) * 8);
        static struct item root;
        memset(&root, 0, sizeof root);
        root.cut = 0xFFFF;
        S->outstanding = 1;
        q_push(&root);
        for (int w = 0; w < o_workers; w++) {
            S->w[w].busy = 0;
            S->w[w].depth = 0;
            spawn(w);
        }
        while (S->outstanding > 0) {
            int status;
            pid_t p = waitpid(-1, &status, WNOHANG);
            if (p > 0) {
                int w;
                for (w = 0; w < o_workers; w++) {
                    if (S->w[w].pid == p) {
                        break;
                    }
                }
                break_lock_of(&S->qlock, p);
                break_lock_of(&S->vlock, p);
                if (w < o_workers) {
                    struct wslot *ws = &S->w[w];
                    const bool recycle = WIFEXITED(status) && WEXITSTATUS(status) == VX_EXIT_RECYCLE;
                    if (!recycle) {
                        bool hang = ws->run_start_ns == 1;
                        char reason[400];
                        char path[300];
                        snprintf(path, sizeof path, "%s.w%d.err", o_out ? o_out : "/dev/null", w);
                        classify(path, status, hang, reason, sizeof reason);
                        if (strstr(reason, "VX-FATAL") || (WIFEXITED(status) && WEXITSTATUS(status) == 2)) {
                            /* the explorer itself is broken: stop everything */
                            printf("VX-FATAL in worker %d: %s\n", w, reason);
                            char cmd[400];
                            snprintf(cmd, sizeof cmd, "tail -5 %s", path);
                            fflush(stdout);
                            if (system(cmd)) { }
                            for (int k = 0; k < o_workers; k++) {
                                if (S->w[k].pid > 0) {
                                    kill(S->w[k].pid, SIGKILL);
                                }
                            }
                            _exit(2);
                        }
                        if (ws->depth > 0) {
                            const struct item *top = &ws->stack[ws->depth - 1];
                            if (top->kind == 0 && top->running) {
                                record_crash(ws, reason);
                            }
                            offload_stack(ws, false);
                        }
                        else if (++idle_deaths > 40) {
                            printf("VX-FATAL: workers keep dying outside executions: %s\n", reason);
                            for (int k = 0; k < o_workers; k++) {
                                if (S->w[k].pid > 0) {
                                    kill(S->w[k].pid, SIGKILL);
                                }
                            }
                            _exit(2);
                        }
                    }
                    ws->run_start_ns = 0;
                    spawn(w);
                }
                continue;
            }
            /* watchdog + deadline */
            const uint64_t t = now_ns();
            for (int w = 0; w < o_workers; w++) {
                const uint64_t rs = S->w[w].run_start_ns;
                if (rs > 1 && t > rs && (double)(t - rs) / 1e9 > o_run_timeout) {
                    S->w[w].run_start_ns = 1;
                    kill(S->w[w].pid, SIGKILL);
                }
            }
            if (!S->stop && (double)(t - t0) / 1e9 > o_deadline) {
                S->stop = 1;
                deadline_hit = true;
            }
            if (S->stop) {
                /* drain the queue; workers drop their stacks */
                lock(&S->qlock);
                const uint32_t n = S->qtail - S->qhead;
                S->qhead = S->qtail;
                unlock(&S->qlock);
                __atomic_sub_fetch(&S->outstanding, (int64_t)n, __ATOMIC_RELAXED);
            }
            usleep(2000);
        }
        S->done = 1;
        for (int w = 0; w < o_workers; w++) {
            int status;
            waitpid(S->w[w].pid, &status, 0);
        }
        exec_total += S->executions;
        const double wb = (double)(now_ns() - tb) / 1e9;
        if (S->stop == 2) {
            cap_hit = true;
        }
        if (S->stop) {
            pbl += (size_t)snprintf(perbound + pbl, sizeof perbound - pbl,
                                    "%s{\"bound\":%d,\"executions\":%llu,\"wall_s\":%.2f,\"complete\":false}",
                                    pbl ? "," : "", b, (unsigned long long)S->executions, wb);
            break;
        }
        completed = b;
        exec_last = S->executions;
        pbl += (size_t)snprintf(perbound + pbl, sizeof perbound - pbl,
                                "%s{\"bound\":%d,\"executions\":%llu,\"wall_s\":%.2f,\"complete\":true}",
                                pbl ? "," : "", b, (unsigned long long)S->executions, wb);
        if ((double)(now_ns() - t0) / 1e9 > o_deadline) {
            if (b < o_bmax) {
                deadline_hit = true;
            }
            break;
        }
    }

    if (getenv("VX_DUMP_STATES")) {
        FILE *df = fopen(getenv("VX_DUMP_STATES"), "w");
        for (uint64_t i = 0; df && i <= g_states_mask; i++) {
            if (g_states[i]) {
                fprintf(df, "%016llx\n", (unsigned long long)g_states[i]);
            }
        }
        if (df) {
            fclose(df);
        }
    }
    const double wall = (double)(now_ns() - t0) / 1e9;
    FILE *fp = o_out ? fopen(o_out, "w") : stdout;
    if (!fp) {
        fatal("cannot write %s", o_out);
    }
    fprintf(fp, "{\"harness\":");
    json_str(fp, h->name);
    fprintf(fp, ",\"opts\":[");
    for (int i = 0; i < o_nkv; i++) {
        fprintf(fp, "%s", i ? "," : "");
        json_str(fp, o_kv[i]);
    }
    fprintf(fp, "],\"workers\":%d,\"bound_min\":%d,\"bound_max\":%d,\"bound_completed\":%d,"
                "\"exhaustive\":%s,\"deadline_hit\":%s,\"cap_hit\":%s,"
                "\"executions\":%llu,\"executions_total\":%llu,\"transitions\":%llu,"
                "\"states\":%llu,\"states_saturated\":%s,\"outcomes\":%llu,\"cuts\":%llu,"
                "\"max_points\":%llu,\"wall_s\":%.3f,\"per_bound\":[%s],\"counters\":[%llu,%llu,%llu,%llu],",
            o_workers, o_bmin, o_bmax, completed,
            (completed == o_bmax) ? "true" : "false", deadline_hit ? "true" : "false",
            cap_hit ? "true" : "false",
            (unsigned long long)exec_last, (unsigned long long)exec_total,
            (unsigned long long)S->transitions, (unsigned long long)S->nstates,
            S->states_saturated ? "true" : "false", (unsigned long long)S->noutcomes,
            (unsigned long long)S->cuts, (unsigned long long)S->maxpts, wall, perbound,
            (unsigned long long)S->counters[0], (unsigned long long)S->counters[1],
            (unsigned long long)S->counters[2], (unsigned long long)S->counters[3]);
    fprintf(fp, "\"violations_total\":%llu,\"violations\":[", (unsigned long long)S->viol_total);
    for (int k = 0; k < S->nviol; k++) {
        struct viol *v = &S->viol[k];
        fprintf(fp, "%s{\"sig\":", k ? "," : "");
        json_str(fp, v->sig);
        fprintf(fp, ",\"detail\":");
        json_str(fp, v->detail);
        fprintf(fp, ",\"count\":%llu,\"devs\":%d,\"choices\":", (unsigned long long)v->count, v->devs);
        json_choices(fp, v->choice, v->len);
        fprintf(fp, "}");
    }
    fprintf(fp, "],\"crashes_total\":%llu,\"crashes\":[", (unsigned long long)S->crash_total);
    for (int k = 0; k < S->ncrash; k++) {
        struct crash *c = &S->crash[k];
        fprintf(fp, "%s{\"reason\":", k ? "," : "");
        json_str(fp, c->reason);
        fprintf(fp, ",\"count\":%llu,\"choices\":", (unsigned long long)c->count);
        json_choices(fp, c->choice, c->len == 0xFFFF ? 0 : c->len);
        fprintf(fp, "}");
    }
    fprintf(fp, "],\"samples\":[");
    for (int k = 0; k < S->nsamples; k++) {
        struct sample *sp = &S->samples[k];
        fprintf(fp, "%s{\"choices\":", k ? "," : "");
        json_choices(fp, sp->choice, sp->len);
        fprintf(fp, ",\"trace\":");
        json_str(fp, sp->trace);
        fprintf(fp, "}");
    }
    fprintf(fp, "]}\n");
    if (o_out) {
        fclose(fp);
        for (int w = 0; w < o_workers; w++) {
            char path[300];
            snprintf(path, sizeof path, "%s.w%d.err", o_out, w);
            unlink(path);
        }
    }
    return 0;
}
