/*
 * C17 - data summaries equal exact sample statistics; merging equals
 * concatenation; weighted summaries are weight-scale invariant.
 *
 * options: mode=plain|offset|weighted  maxlen=N
 */
#include <float.h>
#include <inttypes.h>
#include <math.h>
#include <stdio.h>
#include <stdlib.h>
#include <string.h>

#include "vx_explore.h"

#include "cmb_dataset.h"
#include "cmb_datasummary.h"
#include "cmb_logger.h"
#include "cmb_timeseries.h"
#include "cmb_wtdsummary.h"

typedef __float128 q_t;

static const double V_PLAIN[] = { 0.0, 1.0, -1.0, 2.0, 1e9 + 1.0, 1e-3, 1e60 };
static const double V_OFFSET[] = { 1e9, 1e9 + 1.0, 1e9 + 2.0, 1e9 + 3.0, 1e9 - 5.0 };
static const double V_OFFSET12[] = { -1e12, -1e12 + 1.0, -1e12 + 2.0, -1e12 + 3.0, -1e12 - 5.0 };
static const double W_SET_ORD[] = { 1.0, 0.0, 2.0, 0.5 };
/* weights whose ratios exceed 2^53: a sample of positive weight counts, however little it weighs against the rest */
static const double W_SET_TINY[] = { 1.0, 0.0, 1e-17, 0x1p60 };
static const double *W_SET = W_SET_ORD;
static bool g_tinyw;

static const double *V;
static int nV;
static int maxlen;
static const char *mode;

#define MAXN 8
static double x[MAXN], w[MAXN];
static int n;

static char g_sig[200];
static bool g_reuse; /* second pass: every summary has had an earlier life and was reset */
#define FAIL(rule, ...) do { snprintf(g_sig, sizeof g_sig, "c17:%s%s", g_reuse ? "after-reset:" : "", rule); vx_violation(g_sig, __VA_ARGS__); } while (0)

struct ref {
    uint64_t count;
    double min, max;
    q_t mean, var, skew, kurt; /* sample statistics */
    q_t M[5];                  /* sums of |x-mean|^k (magnitude scales) */
    q_t wsum;
    double amax;
};

/* exact (quad precision, two-pass) statistics with optional weights (NULL = unit weights);
 * the finite-sample corrections are count-based, as documented for the unweighted case */
static void reference(const double *xs, const double *ws, int cnt, struct ref *r)
{
    memset(r, 0, sizeof *r);
    r->min = DBL_MAX;
    r->max = -DBL_MAX;
    q_t sw = 0, swx = 0;
    for (int i = 0; i < cnt; i++) {
        const q_t wi = ws ? (q_t)ws[i] : 1;
        if (wi == 0) {
            continue;
        }
        r->count++;
        r->min = xs[i] < r->min ? xs[i] : r->min;
        r->max = xs[i] > r->max ? xs[i] : r->max;
        r->amax = fabs(xs[i]) > r->amax ? fabs(xs[i]) : r->amax;
        sw += wi;
        swx += wi * (q_t)xs[i];
    }
    r->wsum = sw;
    if (r->count == 0) {
        return;
    }
    r->mean = swx / sw;
    q_t m2 = 0, m3 = 0, m4 = 0;
    for (int i = 0; i < cnt; i++) {
        const q_t wi = ws ? (q_t)ws[i] : 1;
        if (wi == 0) {
            continue;
        }
        const q_t d = (q_t)xs[i] - r->mean;
        const q_t a = d < 0 ? -d : d;
        m2 += wi * d * d;
        m3 += wi * d * d * d;
        m4 += wi * d * d * d * d;
        r->M[1] += wi * a;
        r->M[2] += wi * a * a;
        r->M[3] += wi * a * a * a;
        r->M[4] += wi * a * a * a * a;
    }
    const q_t nn = (q_t)r->count;
    /* normalised weights: statistics of the distribution that puts mass w_i/W on x_i,
     * with the usual count-based small-sample corrections */
    const q_t p2 = m2 / sw, p3 = m3 / sw, p4 = m4 / sw;
    if (r->count > 1) {
        r->var = p2 * nn / (nn - 1);
    }
    if (r->count > 2 && p2 > 0) {
        const q_t g = p3 / (p2 * sqrtl((long double)p2));
        r->skew = sqrtl((long double)(nn * (nn - 1))) * g / (nn - 2);
    }
    if (r->count > 3 && p2 > 0) {
        const q_t g = p4 / (p2 * p2) - 3;
        r->kurt = (nn - 1) / ((nn - 2) * (nn - 3)) * ((nn + 1) * g + 6);
    }
}

static bool close_rel(double got, q_t want, double rel, double abs_floor)
{
    if (isnan(got)) {
        return false;
    }
    const q_t d = (q_t)got - want;
    const q_t a = d < 0 ? -d : d;
    const q_t m = want < 0 ? -want : want;
    return a <= (q_t)rel * m + (q_t)abs_floor;
}

static const char *shape(int cnt)
{
    static char b[16];
    snprintf(b, sizeof b, "n%d", cnt > 4 ? 5 : cnt);
    return b;
}

/* compare a summary (count,min,max,m1..) with the reference; what = context for the signature */
static bool check_summary(const struct cmb_datasummary *s, const struct ref *r, const char *what,
                          const char *shp)
{
    char rule[120];
    if (cmb_datasummary_count(s) != r->count) {
        snprintf(rule, sizeof rule, "%s:count:%s", what, shp);
        FAIL(rule, "count %" PRIu64 ", exact %" PRIu64, cmb_datasummary_count(s), r->count);
        return false;
    }
    if (r->count == 0) {
        if (isnan(cmb_datasummary_mean(s)) || isnan(cmb_datasummary_variance(s))) {
            snprintf(rule, sizeof rule, "%s:nan-when-empty:%s", what, shp);
            FAIL(rule, "empty summary reports NaN (mean %g, variance %g)", cmb_datasummary_mean(s),
                 cmb_datasummary_variance(s));
            return false;
        }
        return true;
    }
    if (cmb_datasummary_min(s) != r->min || cmb_datasummary_max(s) != r->max) {
        snprintf(rule, sizeof rule, "%s:minmax:%s", what, shp);
        FAIL(rule, "min/max %g/%g, exact %g/%g", cmb_datasummary_min(s), cmb_datasummary_max(s), r->min, r->max);
        return false;
    }
    /* magnitude scales: rounding is ~1e-16 of these, a wrong coefficient is O(1) of them */
    const double eps_off = 1e3 * DBL_EPSILON * r->amax;
    const double sc1 = (double)(r->M[1] / r->wsum) + r->amax * 1e-12;
    if (!close_rel(cmb_datasummary_mean(s), r->mean, 1e-12, 1e-9 * sc1 + 1e-300)) {
        snprintf(rule, sizeof rule, "%s:mean:%s", what, shp);
        FAIL(rule, "mean %.17g, exact %.17g", cmb_datasummary_mean(s), (double)r->mean);
        return false;
    }
    if (r->count > 1) {
        const double var_scale = (double)(r->M[2] / r->wsum);
        const double tol = 1e-6 * var_scale * 2 + eps_off * (double)(r->M[1] / r->wsum) + 1e-300;
        if (!close_rel(cmb_datasummary_variance(s), r->var, 0, tol)) {
            snprintf(rule, sizeof rule, "%s:variance:%s", what, shp);
            FAIL(rule, "variance %.17g, exact %.17g", cmb_datasummary_variance(s), (double)r->var);
            return false;
        }
        const double sd = cmb_datasummary_stddev(s);
        if (!close_rel(sd * sd, r->var, 0, 2 * tol)) {
            snprintf(rule, sizeof rule, "%s:stddev:%s", what, shp);
            FAIL(rule, "stddev %.17g, exact variance %.17g", sd, (double)r->var);
            return false;
        }
    }
    /* every statistic and the printed report must be computable for every input, also constant data
     * (inside an experiment invalid operations and divisions by zero trap): the values of the higher
     * moments are compared below only where they are defined and well conditioned */
    {
        const double sk = cmb_datasummary_skewness(s), ku = cmb_datasummary_kurtosis(s);
        vx_outcome(vx_hash_bytes(3, &sk, 8) ^ vx_hash_bytes(4, &ku, 8));
        char *buf = NULL;
        size_t len = 0;
        FILE *fp = open_memstream(&buf, &len);
        if (fp) {
            cmb_datasummary_print(s, fp, false);
            fclose(fp);
            free(buf);
        }
    }
    /* higher moments only for well-conditioned data (spread not negligible against the offset) */
    /* (how far the one-pass updates can be off: rounding of the samples' distances from the running mean, i.e. the
     * machine epsilon times offset over spread; beyond 5 % of that the comparison says nothing and is skipped) */
    const double ill = r->var > 0 ? DBL_EPSILON * r->amax / (double)sqrtl((long double)r->var) : 1.0;
    const bool conditioned = r->var > 0 && ill < 8e-4;
    const double htol = 1e-6 + 64.0 * ill;
    if (r->count > 2 && conditioned) {
        if (!close_rel(cmb_datasummary_skewness(s), r->skew, htol, htol)) {
            snprintf(rule, sizeof rule, "%s:skewness:%s", what, shp);
            FAIL(rule, "skewness %.17g, exact %.17g", cmb_datasummary_skewness(s), (double)r->skew);
            return false;
        }
    }
    if (r->count > 3 && conditioned) {
        if (!close_rel(cmb_datasummary_kurtosis(s), r->kurt, 4 * htol, 4 * htol)) {
            snprintf(rule, sizeof rule, "%s:kurtosis:%s", what, shp);
            FAIL(rule, "kurtosis %.17g, exact %.17g", cmb_datasummary_kurtosis(s), (double)r->kurt);
            return false;
        }
    }
    return true;
}

static void summarise(struct cmb_datasummary *s, const double *xs, int cnt)
{
    cmb_datasummary_initialize(s);
    if (g_reuse) {
        /* an earlier life with other data, then reset: must be as good as new */
        cmb_datasummary_add(s, 3.5);
        cmb_datasummary_add(s, -2.0);
        cmb_datasummary_add(s, 1e3);
        cmb_datasummary_reset(s);
    }
    for (int i = 0; i < cnt; i++) {
        cmb_datasummary_add(s, xs[i]);
    }
}

static void wsummarise(struct cmb_wtdsummary *s, const double *xs, const double *ws, int cnt, double c)
{
    cmb_wtdsummary_initialize(s);
    if (g_reuse) {
        cmb_wtdsummary_add(s, 3.5, 2.0);
        cmb_wtdsummary_add(s, -2.0, 0.5);
        cmb_wtdsummary_add(s, 1e3, 1.0);
        cmb_wtdsummary_reset(s);
    }
    for (int i = 0; i < cnt; i++) {
        cmb_wtdsummary_add(s, xs[i], ws[i] * c);
    }
}

static uint64_t fp_of(void)
{
    uint64_t h = (uint64_t)n;
    for (int i = 0; i < n; i++) {
        h = vx_mix(h, vx_hash_bytes(1, &x[i], 8));
        h = vx_mix(h, vx_hash_bytes(2, &w[i], 8));
    }
    return h;
}

static void run_plain(void)
{
    struct ref r;
    reference(x, NULL, n, &r);
    struct cmb_datasummary s;
    summarise(&s, x, n);
    vx_transitions((uint64_t)n);
    if (!check_summary(&s, &r, "add", shape(n))) {
        return;
    }
    vx_outcome(vx_hash_bytes(3, &s.m1, 8) ^ vx_hash_bytes(4, &s.m2, 8));
    /* the same through a dataset */
    if (n > 0) {
        struct cmb_dataset ds;
        cmb_dataset_initialize(&ds);
        for (int i = 0; i < n; i++) {
            cmb_dataset_add(&ds, x[i]);
        }
        struct cmb_datasummary s2;
        cmb_dataset_summarize(&ds, &s2);
        cmb_dataset_terminate(&ds);
        if (!check_summary(&s2, &r, "dataset-summarize", shape(n))) {
            return;
        }
    }
    /* very long runs, reached by doubling: the summary merged with a copy of itself 40 times stands for up to
     * 2^40 x n samples (the same values repeated). Count, extremes and mean stay; variance, skewness and kurtosis
     * follow from the unchanged distribution and the new count. */
    if (n >= 2 && !g_reuse && r.var > 0 && (double)sqrtl((long double)r.var) > 1e-7 * r.amax) {
        struct cmb_datasummary big, cpy, out;
        summarise(&big, x, n);
        q_t p2 = 0, p3 = 0, p4 = 0;
        for (int i = 0; i < n; i++) {
            const q_t d = (q_t)x[i] - r.mean;
            p2 += d * d;
            p3 += d * d * d;
            p4 += d * d * d * d;
        }
        p2 /= n;
        p3 /= n;
        p4 /= n;
        const q_t g1 = p3 / (p2 * sqrtl((long double)p2)), g2 = p4 / (p2 * p2) - 3;
        for (int dbl = 1; dbl <= 40; dbl++) {
            cpy = big;
            if (dbl % 2) {
                cmb_datasummary_merge(&big, &big, &cpy);
            }
            else {
                cmb_datasummary_merge(&out, &cpy, &big);
                big = out;
            }
            vx_transition();
            const q_t nn = (q_t)n * (q_t)(1ull << dbl);
            const q_t var = p2 * nn / (nn - 1);
            const q_t skew = sqrtl((long double)(nn * (nn - 1))) * g1 / (nn - 2);
            const q_t kurt = (nn - 1) / ((nn - 2) * (nn - 3)) * ((nn + 1) * g2 + 6);
            const char *bad = NULL;
            double got = 0;
            q_t want = 0;
            if (cmb_datasummary_count(&big) != (uint64_t)n << dbl) { bad = "count"; got = (double)cmb_datasummary_count(&big); want = nn; }
            else if (cmb_datasummary_min(&big) != r.min || cmb_datasummary_max(&big) != r.max) { bad = "minmax"; got = cmb_datasummary_min(&big); want = r.min; }
            else if (!close_rel(cmb_datasummary_mean(&big), r.mean, 1e-9, 1e-9 * r.amax)) { bad = "mean"; got = cmb_datasummary_mean(&big); want = r.mean; }
            else if (!close_rel(cmb_datasummary_variance(&big), var, 1e-7, 0)) { bad = "variance"; got = cmb_datasummary_variance(&big); want = var; }
            else if (!close_rel(cmb_datasummary_skewness(&big), skew, 1e-6, 1e-6)) { bad = "skewness"; got = cmb_datasummary_skewness(&big); want = skew; }
            else if (!close_rel(cmb_datasummary_kurtosis(&big), kurt, 1e-6, 1e-6)) { bad = "kurtosis"; got = cmb_datasummary_kurtosis(&big); want = kurt; }
            if (bad) {
                char rule[100];
                snprintf(rule, sizeof rule, "long-run:%s:%s", bad, dbl <= 20 ? "up-to-2^20-fold" : dbl <= 32 ? "up-to-2^32-fold" : "beyond-2^32-fold");
                FAIL(rule, "the %d samples repeated 2^%d times (by merging): %s is %.17g, exact %.17g", n, dbl, bad, got, (double)want);
                return;
            }
        }
    }
    /* the result of a merge is a summary like any other: what two empty summaries merge into takes the data as a new
     * one would (by adding, and as either operand of a further merge), and so does a prefix merged with nothing */
    for (int k = 0; k <= n; k++) {
        struct cmb_datasummary a, e1, e2, m, full, t;
        summarise(&a, x, k);
        summarise(&e1, x, 0);
        summarise(&e2, x, 0);
        cmb_datasummary_merge(&m, (k % 2) ? &e1 : &a, (k % 2) ? &a : &e2); /* the first k samples, merged with nothing */
        for (int i = k; i < n; i++) {
            cmb_datasummary_add(&m, x[i]);
        }
        vx_transition();
        if (!check_summary(&m, &r, k == 0 ? "merged-empties-then-add" : "merge-then-add", shape(n))) {
            return;
        }
        if (k == 0) {
            summarise(&full, x, n);
            cmb_datasummary_merge(&m, &e1, &e2);
            cmb_datasummary_merge(&t, &m, &full);
            if (!check_summary(&t, &r, "merged-empties-as-first-operand", shape(n))) {
                return;
            }
            cmb_datasummary_merge(&t, &full, &m);
            if (!check_summary(&t, &r, "merged-empties-as-second-operand", shape(n))) {
                return;
            }
        }
    }
    /* every split, both orders, all three target aliasings */
    for (int k = 0; k <= n; k++) {
        for (int order = 0; order < 2; order++) {
            for (int alias = 0; alias < 3; alias++) {
                struct cmb_datasummary a, b, t;
                summarise(&a, x, k);
                summarise(&b, x + k, n - k);
                summarise(&t, x, 0); /* a target that may have had an earlier life */
                struct cmb_datasummary *first = order ? &b : &a, *second = order ? &a : &b;
                struct cmb_datasummary *tgt = alias == 0 ? &t : alias == 1 ? first : second;
                cmb_datasummary_merge(tgt, first, second);
                vx_transition();
                char what[80];
                snprintf(what, sizeof what, "merge:%s%s:%s", (k == 0 || k == n) ? ((n == 0) ? "both-empty" : "one-empty")
                         : "nonempty", "", alias == 0 ? "separate-target" : "into-operand");
                if (!check_summary(tgt, &r, what, shape(n))) {
                    return;
                }
            }
        }
    }
}

static void run_weighted(void)
{
    struct ref r;
    reference(x, w, n, &r);
    struct cmb_wtdsummary s;
    wsummarise(&s, x, w, n, 1.0);
    vx_transitions((uint64_t)n);
    char rule[160];
    const struct cmb_datasummary *ds = (const struct cmb_datasummary *)&s;
    /* exact weighted mean, count of non-zero-weight samples, min/max over them */
    if (cmb_wtdsummary_count(&s) != r.count) {
        FAIL("weighted:count", "count %" PRIu64 ", samples with non-zero weight %" PRIu64, cmb_wtdsummary_count(&s), r.count);
        return;
    }
    if (r.count > 0) {
        if (cmb_wtdsummary_min(&s) != r.min || cmb_wtdsummary_max(&s) != r.max) {
            FAIL("weighted:minmax", "min/max %g/%g, exact over non-zero weights %g/%g", cmb_wtdsummary_min(&s),
                 cmb_wtdsummary_max(&s), r.min, r.max);
            return;
        }
        const double sc1 = (double)(r.M[1] / r.wsum) + r.amax * 1e-12;
        if (!close_rel(cmb_wtdsummary_mean(&s), r.mean, 1e-12, 1e-9 * sc1 + 1e-300)) {
            /* with weight ratios beyond 2^53 the running update loses a light sample's share of the mean: an error of the
             * order of one rounding of the largest sample, which is what 'up to rounding' is taken to allow there */
            if (!g_tinyw || !close_rel(cmb_wtdsummary_mean(&s), r.mean, 1e-12, 16.0 * 2.3e-16 * r.amax + 1e-300)) {
                FAIL("weighted:mean", "weighted mean %.17g, exact %.17g", cmb_wtdsummary_mean(&s), (double)r.mean);
                return;
            }
        }
    }
    if (g_tinyw) {
        vx_outcome(vx_hash_bytes(3, &ds->m1, 8) ^ vx_hash_bytes(4, &ds->m2, 8) ^ cmb_wtdsummary_count(&s));
        return; /* scale invariance and the time-series route are compared on the ordinary weight set */
    }
    vx_outcome(vx_hash_bytes(3, &ds->m1, 8) ^ vx_hash_bytes(4, &ds->m2, 8));
    /* unit weights = unweighted */
    bool unit = true;
    for (int i = 0; i < n; i++) {
        unit = unit && w[i] == 1.0;
    }
    if (unit) {
        struct cmb_datasummary u;
        summarise(&u, x, n);
        const double got[5] = { cmb_wtdsummary_mean(&s), cmb_wtdsummary_variance(&s), cmb_wtdsummary_stddev(&s),
                                cmb_wtdsummary_skewness(&s), cmb_wtdsummary_kurtosis(&s) };
        const double want[5] = { cmb_datasummary_mean(&u), cmb_datasummary_variance(&u), cmb_datasummary_stddev(&u),
                                 cmb_datasummary_skewness(&u), cmb_datasummary_kurtosis(&u) };
        static const char *nm[5] = { "mean", "variance", "stddev", "skewness", "kurtosis" };
        for (int k = 0; k < 5; k++) {
            if (isnan(want[k]) && isnan(got[k])) {
                continue;
            }
            const double fl[5] = { r.amax, r.amax * r.amax, r.amax, 1.0, 1.0 };
            if (!(fabs(got[k] - want[k]) <= 1e-9 * (fabs(want[k]) + fl[k]) + 1e-300)) {
                snprintf(rule, sizeof rule, "weighted:unit-weights-differ:%s", nm[k]);
                FAIL(rule, "all weights 1: weighted %s %.17g, unweighted %.17g", nm[k], got[k], want[k]);
                return;
            }
        }
    }
    /* scale invariance */
    static const double CS[3] = { 3.0, 0.25, 1e6 };
    for (int c = 0; c < 3; c++) {
        struct cmb_wtdsummary t;
        wsummarise(&t, x, w, n, CS[c]);
        const double a[5] = { cmb_wtdsummary_mean(&s), cmb_wtdsummary_variance(&s), cmb_wtdsummary_stddev(&s),
                              cmb_wtdsummary_skewness(&s), cmb_wtdsummary_kurtosis(&s) };
        const double b[5] = { cmb_wtdsummary_mean(&t), cmb_wtdsummary_variance(&t), cmb_wtdsummary_stddev(&t),
                              cmb_wtdsummary_skewness(&t), cmb_wtdsummary_kurtosis(&t) };
        static const char *nm[5] = { "mean", "variance", "stddev", "skewness", "kurtosis" };
        if (cmb_wtdsummary_count(&t) != cmb_wtdsummary_count(&s) || cmb_wtdsummary_min(&t) != cmb_wtdsummary_min(&s)
            || cmb_wtdsummary_max(&t) != cmb_wtdsummary_max(&s)) {
            FAIL("weighted:weight-scale:count-min-max", "count/min/max change when all weights are multiplied by %g", CS[c]);
            return;
        }
        for (int k = 0; k < 5; k++) {
            if (isnan(a[k]) && isnan(b[k])) {
                continue;
            }
            /* absolute floors: rounding noise around zero (dimension of each statistic) */
            const double fl[5] = { r.amax, r.amax * r.amax, r.amax, 1.0, 1.0 };
            if (!(fabs(a[k] - b[k]) <= 1e-9 * (fabs(a[k]) + fabs(b[k]) + fl[k]) + 1e-300)) {
                snprintf(rule, sizeof rule, "weighted:weight-scale:%s", nm[k]);
                FAIL(rule, "%s is %.17g, but %.17g after multiplying every weight by %g", nm[k], a[k], b[k], CS[c]);
                return;
            }
        }
    }
    /* (the statement fixes no particular definition of the weighted higher statistics, only
     * unit-weight coincidence and scale invariance, so they are not compared with a formula) */
    /* zero-weight samples change nothing */
    {
        double x2[MAXN], w2[MAXN];
        int m = 0;
        for (int i = 0; i < n; i++) {
            if (w[i] != 0.0) {
                x2[m] = x[i];
                w2[m] = w[i];
                m++;
            }
        }
        struct cmb_wtdsummary t;
        wsummarise(&t, x2, w2, m, 1.0);
        if (memcmp(&t, &s, sizeof t) != 0 && !(isnan(((struct cmb_datasummary *)&t)->m1) && isnan(ds->m1))) {
            FAIL("weighted:zero-weight-not-ignored", "the summary changes when the zero-weight samples are left out");
            return;
        }
    }
    /* the same samples as a time series (value x[i] held for the duration w[i], closed at the end): its summary is the
     * summary of the samples that lasted - count, minimum and maximum are theirs, the mean is the time average */
    {
        struct cmb_timeseries ts;
        cmb_timeseries_initialize(&ts);
        double t = 0;
        for (int i = 0; i < n; i++) {
            cmb_timeseries_add(&ts, x[i], t);
            t += w[i];
        }
        if (n > 0) {
            cmb_timeseries_finalize(&ts, t);
        }
        struct cmb_wtdsummary t2;
        memset(&t2, 0, sizeof t2);
        cmb_timeseries_summarize(&ts, &t2);
        vx_transition();
        /* durations are differences of sums of the weights: a weight can be lost against a large clock value; those
         * inputs are skipped (decided by the harness's own arithmetic, not by what the library stored) */
        bool exact_durations = true;
        {
            double tt = 0;
            for (int i = 0; exact_durations && i < n; i++) {
                const double t1 = tt + w[i];
                exact_durations = (t1 - tt) == w[i];
                tt = t1;
            }
        }
        if (exact_durations) {
            for (int i = 0; i < n; i++) {
                if ((uint64_t)i >= ts.ds.count || ts.ds.xa[i] != x[i] || ts.wa[i] != w[i]) {
                    FAIL("weighted:timeseries-summary:durations", "sample %d of the finalized time series is (%g for %g), it was "
                         "recorded as %g and lasted %g", i, (uint64_t)i < ts.ds.count ? ts.ds.xa[i] : NAN,
                         (uint64_t)i < ts.ds.count ? ts.wa[i] : NAN, x[i], w[i]);
                    cmb_timeseries_terminate(&ts);
                    return;
                }
            }
            if (cmb_wtdsummary_count(&t2) != cmb_wtdsummary_count(&s)) {
                FAIL("weighted:timeseries-summary:count", "summary of the time series counts %" PRIu64 " samples, %" PRIu64
                     " have a duration", cmb_wtdsummary_count(&t2), cmb_wtdsummary_count(&s));
                cmb_timeseries_terminate(&ts);
                return;
            }
            if (cmb_wtdsummary_count(&s) > 0
                && (cmb_wtdsummary_min(&t2) != cmb_wtdsummary_min(&s) || cmb_wtdsummary_max(&t2) != cmb_wtdsummary_max(&s))) {
                FAIL("weighted:timeseries-summary:min-max", "summary of the time series has min/max %g/%g, the samples that "
                     "have a duration %g/%g", cmb_wtdsummary_min(&t2), cmb_wtdsummary_max(&t2), cmb_wtdsummary_min(&s),
                     cmb_wtdsummary_max(&s));
                cmb_timeseries_terminate(&ts);
                return;
            }
            if (cmb_wtdsummary_count(&s) > 0 && memcmp(&t2, &s, sizeof s) != 0) {
                FAIL("weighted:timeseries-summary:moments", "summary of the time series (mean %.17g, variance %.17g) differs "
                     "from the weighted summary of the same (value, duration) pairs (mean %.17g, variance %.17g)",
                     cmb_wtdsummary_mean(&t2), cmb_wtdsummary_variance(&t2), cmb_wtdsummary_mean(&s),
                     cmb_wtdsummary_variance(&s));
                cmb_timeseries_terminate(&ts);
                return;
            }
            /* the series is closed a second time, two time units later (an intermediate report, then the end of the run):
             * the last value simply lasted that much longer */
            if (n > 0 && n < MAXN && (t + 2.0) - t == 2.0) {
                cmb_timeseries_finalize(&ts, t + 2.0);
                struct cmb_wtdsummary t3, s3;
                memset(&t3, 0, sizeof t3);
                cmb_timeseries_summarize(&ts, &t3);
                double x3[MAXN + 1], w3[MAXN + 1];
                memcpy(x3, x, (size_t)n * sizeof x3[0]);
                memcpy(w3, w, (size_t)n * sizeof w3[0]);
                x3[n] = x[n - 1];
                w3[n] = 2.0;
                wsummarise(&s3, x3, w3, n + 1, 1.0);
                vx_transition();
                if (memcmp(&t3, &s3, sizeof s3) != 0) {
                    FAIL("weighted:timeseries-summary:closed-twice", "after a second finalize two time units later the summary "
                         "has count %" PRIu64 ", mean %.17g; the samples with the last value held two units longer give count %"
                         PRIu64 ", mean %.17g", cmb_wtdsummary_count(&t3), cmb_wtdsummary_mean(&t3),
                         cmb_wtdsummary_count(&s3), cmb_wtdsummary_mean(&s3));
                    cmb_timeseries_terminate(&ts);
                    return;
                }
            }
        }
        cmb_timeseries_terminate(&ts);
    }
    /* what two empty weighted summaries merge into is an empty summary: merged with the data (either side) it gives the
     * data's count, extremes and mean */
    if (r.count > 0) {
        for (int side = 0; side < 2; side++) {
            struct cmb_wtdsummary e1, e2, m, full, t;
            wsummarise(&e1, x, w, 0, 1.0);
            wsummarise(&e2, x, w, 0, 1.0);
            wsummarise(&full, x, w, n, 1.0);
            cmb_wtdsummary_merge(&m, &e1, &e2);
            cmb_wtdsummary_merge(&t, side ? &full : &m, side ? &m : &full);
            vx_transition();
            const double sc1 = (double)(r.M[1] / r.wsum) + r.amax * 1e-12;
            if (cmb_wtdsummary_count(&t) != r.count || cmb_wtdsummary_min(&t) != r.min || cmb_wtdsummary_max(&t) != r.max
                || !close_rel(cmb_wtdsummary_mean(&t), r.mean, 1e-12, 1e-9 * sc1 + 1e-300)) {
                snprintf(rule, sizeof rule, "weighted:merge:merged-empties-as-%s-operand", side ? "second" : "first");
                FAIL(rule, "count %" PRIu64 " min %g max %g mean %.17g; exact %" PRIu64 " %g %g %.17g", cmb_wtdsummary_count(&t),
                     cmb_wtdsummary_min(&t), cmb_wtdsummary_max(&t), cmb_wtdsummary_mean(&t), r.count, r.min, r.max, (double)r.mean);
                return;
            }
        }
    }
    /* merges of weighted summaries */
    for (int k = 0; k <= n; k++) {
        for (int order = 0; order < 2; order++) {
            struct cmb_wtdsummary into_third;
            memset(&into_third, 0, sizeof into_third);
            for (int alias = 0; alias < 3; alias++) {
                struct cmb_wtdsummary a, b, t;
                wsummarise(&a, x, w, k, 1.0);
                wsummarise(&b, x + k, w + k, n - k, 1.0);
                wsummarise(&t, x, w, 0, 1.0); /* a target that may have had an earlier life */
                struct cmb_wtdsummary *first = order ? &b : &a, *second = order ? &a : &b;
                struct cmb_wtdsummary *tgt = alias == 0 ? &t : alias == 1 ? first : second;
                const bool e1 = cmb_wtdsummary_count(first) == 0, e2 = cmb_wtdsummary_count(second) == 0;
                cmb_wtdsummary_merge(tgt, first, second);
                vx_transition();
                char what[80];
                snprintf(what, sizeof what, "weighted:merge:%s", (e1 && e2) ? "both-empty" : (e1 || e2) ? "one-empty" : "nonempty");
                /* whatever the weighted higher moments are defined to be: the result of a merge is the same whether it
                 * is written to a third summary, over the first operand or over the second */
                if (alias == 0) {
                    into_third = *tgt;
                }
                else if (memcmp(&into_third, tgt, sizeof into_third) != 0) {
                    const struct cmb_datasummary *p0 = (const struct cmb_datasummary *)&into_third;
                    const struct cmb_datasummary *p1 = (const struct cmb_datasummary *)tgt;
                    snprintf(rule, sizeof rule, "%s:target-is-%s-operand", what, alias == 1 ? "first" : "second");
                    FAIL(rule, "merged into the %s operand: count %" PRIu64 " m1 %.17g m2 %.17g m3 %.17g m4 %.17g wsum %.17g; "
                         "into a third summary: count %" PRIu64 " m1 %.17g m2 %.17g m3 %.17g m4 %.17g wsum %.17g",
                         alias == 1 ? "first" : "second", p1->count, p1->m1, p1->m2, p1->m3, p1->m4, tgt->wsum,
                         p0->count, p0->m1, p0->m2, p0->m3, p0->m4, into_third.wsum);
                    return;
                }
                if (cmb_wtdsummary_count(tgt) != r.count) {
                    snprintf(rule, sizeof rule, "%s:count", what);
                    FAIL(rule, "merged count %" PRIu64 ", exact %" PRIu64, cmb_wtdsummary_count(tgt), r.count);
                    return;
                }
                if (r.count == 0) {
                    if (isnan(cmb_wtdsummary_mean(tgt))) {
                        snprintf(rule, sizeof rule, "%s:nan-when-empty", what);
                        FAIL(rule, "merging empty weighted summaries gives NaN");
                        return;
                    }
                    continue;
                }
                const double sc1 = (double)(r.M[1] / r.wsum) + r.amax * 1e-12;
                if (!close_rel(cmb_wtdsummary_mean(tgt), r.mean, 1e-12, 1e-9 * sc1 + 1e-300)
                    || cmb_wtdsummary_min(tgt) != r.min || cmb_wtdsummary_max(tgt) != r.max) {
                    snprintf(rule, sizeof rule, "%s:mean-min-max", what);
                    FAIL(rule, "merged mean %.17g (exact %.17g) min %g max %g", cmb_wtdsummary_mean(tgt), (double)r.mean,
                         cmb_wtdsummary_min(tgt), cmb_wtdsummary_max(tgt));
                    return;
                }
                /* the merged higher moments must equal those of the summary built in one go */
                const struct cmb_datasummary *td = (const struct cmb_datasummary *)tgt;
                const double scale2 = (double)r.M[2] + 1e-300;
                if (!(fabs(td->m2 - ds->m2) <= 1e-6 * scale2 + 1e3 * DBL_EPSILON * r.amax * (double)r.M[1])) {
                    snprintf(rule, sizeof rule, "%s:second-moment", what);
                    FAIL(rule, "merged m2 %.17g, one-pass m2 %.17g", td->m2, ds->m2);
                    return;
                }
            }
        }
    }
}

static void run_one(void)
{
    n = vx_choose_free(maxlen + 1, "len");
    const bool weighted = !strcmp(mode, "weighted");
    for (int i = 0; i < n; i++) {
        x[i] = V[vx_choose_free(nV, "x")];
        w[i] = weighted ? W_SET[vx_choose_free(4, "w")] : 1.0;
    }
    vx_state(fp_of());
    if (vx_tracing()) {
        vx_trace("n=%d:", n);
        for (int i = 0; i < n; i++) {
            vx_trace(" (%g,w=%g)", x[i], w[i]);
        }
        vx_trace("\n");
    }
    if (weighted) {
        run_weighted();
        if (vx_violations_this_exec() == 0) {
            g_reuse = true;
            run_weighted();
            g_reuse = false;
        }
    }
    else {
        run_plain();
        if (vx_violations_this_exec() == 0) {
            g_reuse = true;
            run_plain();
            g_reuse = false;
        }
    }
}

static void ginit(void)
{
    mode = vx_opt("mode", "plain");
    maxlen = (int)vx_opt_int("maxlen", 4);
    if (maxlen > MAXN) {
        maxlen = MAXN;
    }
    if (!strcmp(mode, "offset")) {
        V = V_OFFSET;
        nV = 5;
    }
    else if (!strcmp(mode, "offset12")) {
        V = V_OFFSET12;
        nV = 5;
    }
    else {
        V = V_PLAIN;
        nV = 7;
    }
    if (!strcmp(vx_opt("wset", "ordinary"), "tiny")) {
        W_SET = W_SET_TINY;
        g_tinyw = true;
    }
    cmb_logger_flags_off(0x7FFFFFFFu);
}

int main(int argc, char **argv)
{
    struct vx_harness h = { "c17_summary", run_one, NULL, ginit };
    return vx_main(argc, argv, &h);
}
