/*
 * C19 - cimba_run_experiment runs every trial exactly once, passes each call its
 * own element, returns after all have finished, and the results are identical
 * to a sequential run whatever the assignment of trials to worker threads.
 *
 * cimba_run_experiment is called for real. get_nprocs() (asked by cmi_cpu_cores()) is answered by the
 * harness (worker count), pthread_create/join are wrapped (-Wl,--wrap) so that
 * the workers run under the serialising scheduler; every entry to and return
 * from the trial function is a scheduling point, so the explorer decides which
 * worker performs the next fetch-and-add.
 *
 * options: workers=W size=8|24|4096 mode=sched|free alloc=embedded|malloc
 */
#include <inttypes.h>
#include <pthread.h>
#include <fenv.h>
#include <stdio.h>
#include <stdlib.h>
#include <string.h>

#include "vx_explore.h"
#include "vx_sched.h"

#include "cimba.h"
#include "cmb_condition.h"
#include "cmb_event.h"
#include "cmb_logger.h"
#include "cmb_process.h"
#include "cmb_random.h"
#include "cmb_resource.h"

extern int __real_pthread_create(pthread_t *, const pthread_attr_t *, void *(*)(void *), void *);
extern int __real_pthread_join(pthread_t, void **);

static int W;
static size_t SZ;
static bool scheduled, use_malloc;
static int T;
static unsigned char *arr, *refarr;
static int exec_count[16];
static int ran_on[16];
static int wrong_element;
static unsigned char *cur_base;
static bool in_experiment;
static int done_count[16];          /* the trial function has returned for this element */
static int spawned[32], nspawned;    /* scheduler ids of the worker threads of this execution */
static bool joined[32];
static bool in_pilot;                /* the free-running pilot experiment: its real threads are tracked too */
static pthread_t pilot_th[32];
static bool pilot_joined[32];
static int npilot;

/* the machine has W processors: the library's own cmi_cpu_cores() runs for real and asks the C library, which is
 * answered here (link-time --wrap=get_nprocs) */
int __wrap_get_nprocs(void);
int __wrap_get_nprocs(void)
{
    return W;
}

int __wrap_pthread_create(pthread_t *th, const pthread_attr_t *attr, void *(*fn)(void *), void *arg)
{
    if (scheduled && in_experiment) {
        (void)attr;
        const int tid = vxs_spawn(th, fn, arg);
        if (nspawned < 32) {
            joined[nspawned] = false;
            spawned[nspawned++] = tid;
        }
        return 0;
    }
    const int rc = __real_pthread_create(th, attr, fn, arg);
    if (in_pilot && rc == 0 && npilot < 32) {
        pilot_joined[npilot] = false;
        pilot_th[npilot++] = *th;
    }
    return rc;
}

int __wrap_pthread_join(pthread_t th, void **ret)
{
    if (scheduled && in_experiment) {
        const int t = vxs_tid_of(th);
        if (t >= 0) {
            for (int k = 0; k < nspawned; k++) {
                if (spawned[k] == t) {
                    joined[k] = true;
                }
            }
            vxs_join_tid(t);
            if (ret) {
                *ret = NULL;
            }
            return 0;
        }
    }
    if (in_pilot) {
        for (int k = 0; k < npilot; k++) {
            if (pthread_equal(pilot_th[k], th)) {
                pilot_joined[k] = true;
            }
        }
    }
    return __real_pthread_join(th, ret);
}

static char g_sig[200];
/* in the free-running pass (no scheduler) a finding is schedule dependent and cannot be replayed: prefix "free:" */
#define FAIL(rule, ...) do { snprintf(g_sig, sizeof g_sig, "%sc19:%s", scheduled ? "" : "free:", rule); vx_violation(g_sig, __VA_ARGS__); } while (0)

/* ---- trial content */
struct model;
struct wctx { struct model *m; int id; };
struct model {
    struct cmb_process p[3];
    struct wctx wc[3];
    struct cmb_process watcher;
    struct cmb_resource r;
    struct cmb_condition c;     /* observes the resource's guard: observer tags come from a library-wide pool */
    uint64_t acc;
};

static bool res_free(const struct cmb_condition *c, const struct cmb_process *pp, const void *ctx)
{
    (void)c;
    (void)pp;
    const struct model *m = ctx;
    return cmb_resource_available(&((struct model *)m)->r) > 0;
}

static void *watcher_proc(struct cmb_process *me, void *ctx)
{
    (void)me;
    struct model *m = ctx;
    for (int k = 0; k < 2; k++) {
        if (cmb_condition_wait(&m->c, res_free, m) != CMB_PROCESS_SUCCESS) {
            break;
        }
        m->acc = vx_mix(m->acc, 7777 + (uint64_t)(cmb_time() * 8));
        cmb_process_hold(1.0);
    }
    return NULL;
}

static void *worker_proc(struct cmb_process *me, void *ctx)
{
    (void)me;
    const struct wctx *wc = ctx;
    struct model *m = wc->m;
    for (int k = 0; k < 3; k++) {
        if (cmb_resource_acquire(&m->r) != CMB_PROCESS_SUCCESS) {
            break;
        }
        cmb_process_hold((double)cmb_random_dice(0, 2));
        m->acc = vx_mix(m->acc, (uint64_t)wc->id * 1000 + (uint64_t)(cmb_time() * 8));
        cmb_resource_release(&m->r);
        cmb_process_hold((double)cmb_random_dice(0, 1));
    }
    return NULL;
}

static uint64_t run_model(struct model *m, uint64_t seed, bool leave_blocked)
{
    cmb_random_initialize(seed);
    cmb_event_queue_initialize(0.0);
    cmb_resource_initialize(&m->r, "R");
    cmb_condition_initialize(&m->c, "C");
    cmb_condition_subscribe(&m->c, &m->r.guard);
    m->acc = 0;
    /* where in memory a trial's processes end up is not the trial's doing (it depends on what the allocator of
     * that thread did before): every other run on a thread places the three workers in the opposite order.
     * Worker 0 and worker 2 have the same priority and arrive at the resource in the same instant. */
    static __thread unsigned placement;
    const bool flip = (placement++ & 1u) != 0;
    for (int k = 0; k < 3; k++) {
        struct cmb_process *pp = &m->p[flip ? 2 - k : k];
        m->wc[k].m = m;
        m->wc[k].id = k;
        cmb_process_initialize(pp, "p", worker_proc, &m->wc[k], (int64_t)(k % 2));
        cmb_process_start(pp);
    }
    cmb_process_initialize(&m->watcher, "w", watcher_proc, m, 0);
    cmb_process_start(&m->watcher);
    int guard = 0;
    while (guard++ < (leave_blocked ? 9 : 500) && cmb_event_execute_next()) {
    }
    m->acc = vx_mix(m->acc, (uint64_t)(cmb_time() * 8));
    for (int k = 0; k < 3; k++) {
        if (cmb_process_status(&m->p[k]) == CMB_PROCESS_FINISHED || leave_blocked) {
            if (m->p[k].core.stack) {
                free(m->p[k].core.stack);
                m->p[k].core.stack = NULL;
            }
        }
        else {
            cmb_process_terminate(&m->p[k]);
        }
    }
    if (cmb_process_status(&m->watcher) == CMB_PROCESS_FINISHED || leave_blocked) {
        if (m->watcher.core.stack) {
            free(m->watcher.core.stack);
            m->watcher.core.stack = NULL;
        }
    }
    else {
        cmb_process_terminate(&m->watcher);
    }
    if (!leave_blocked) {
        m->acc = vx_mix(m->acc, (uint64_t)cmb_condition_unsubscribe(&m->c, &m->r.guard));
    }
    m->r.holder = NULL;
    cmb_condition_terminate(&m->c);
    cmb_resource_terminate(&m->r);
    cmb_event_queue_terminate();
    return m->acc;
}

static bool err_trial;
static FILE *log_sink;

static uint64_t rng_probe(uint64_t seed)
{
    cmb_random_initialize(seed);
    uint64_t h = 0;
    /* parameters that differ from trial to trial by one unit in the last place (3.3 against 1.1 + 2.2, 0.3 against
     * 3 * 0.1), used in the first and in the last call of the trial: whatever the samplers keep from the call before -
     * which belongs to the trial this thread ran before - must not leak into this one */
    volatile double a = 1.1, b = 2.2, c = 0.1;
    const double shape = (seed & 1) ? 3.3 : a + b;
    const double p = (seed & 2) ? 0.3 : 3 * c;
    double g = cmb_random_gamma(shape, 0.5);
    h = vx_mix(h, vx_hash_bytes(1, &g, 8));
    h = vx_mix(h, (uint64_t)cmb_random_geometric(p));
    for (int k = 0; k < (int)(seed % 5) + 1; k++) {
        h = vx_mix(h, (uint64_t)cmb_random_flip());
    }
    g = cmb_random_gamma(0.5 + (double)(seed % 3), 1.0);
    h = vx_mix(h, vx_hash_bytes(1, &g, 8));
    h = vx_mix(h, (uint64_t)cmb_random_geometric(0.3));
    double e = cmb_random_exponential(2.0);
    h = vx_mix(h, vx_hash_bytes(1, &e, 8));
    g = cmb_random_std_beta(2.0, shape);
    h = vx_mix(h, vx_hash_bytes(1, &g, 8));
    h = vx_mix(h, (uint64_t)cmb_random_geometric(p));
    for (int k = 0; k < 6; k++) {
        g = cmb_random_gamma(shape, 0.5);
        h = vx_mix(h, vx_hash_bytes(1, &g, 8));
    }
    h = vx_mix(h, cmb_random_sfc64());
    return h;
}

static void trial_func(void *vp)
{
    unsigned char *ep = vp;
    if (scheduled && in_experiment) {
        vxs_point("trial-entry");
    }
    const ptrdiff_t off = ep - cur_base;
    const int idx = (off >= 0 && (size_t)off % SZ == 0) ? (int)((size_t)off / SZ) : -1;
    if (idx < 0 || idx >= T) {
        wrong_element++;
    }
    else {
        __atomic_add_fetch(&exec_count[idx], 1, __ATOMIC_SEQ_CST);
        ran_on[idx] = scheduled && in_experiment ? vxs_self() : 0;
        uint64_t param;
        memcpy(&param, ep, 8);
        /* trials seed the generator from their own parameters; the first one uses the plainest of all,
         * its replication index 0 */
        const uint64_t seed = idx == 0 ? 0u : 0x5EED0000ull + (param & 0xFFFF);
        /* what a trial can see of the library's thread-local state before it has set anything up
         * itself: this must not depend on what ran earlier on this worker thread */
        const double clock_at_entry = cmb_time();
        uint64_t entry_obs = vx_hash_bytes(41, &clock_at_entry, sizeof clock_at_entry)
                             ^ (uint64_t)(cmb_process_current() != NULL);
        /* ... nor may the arithmetic a trial sees depend on the thread it runs on: rounding mode,
         * flush-to-zero / denormals-are-zero, and what a computation that passes through the subnormal
         * range actually yields (exception masks are not results and are left out) */
        {
            const unsigned csr = __builtin_ia32_stmxcsr() & 0xE040u;
            volatile double tiny = 1e-300, third = 1.0;
            tiny *= 1e-10;              /* subnormal unless flushed */
            tiny *= 1e10;
            third /= 3.0;               /* rounding-mode dependent */
            const double a = tiny, b = third;
            entry_obs = vx_mix(entry_obs, (uint64_t)csr * 8 + (uint64_t)(fegetround() >> 10));
            entry_obs = vx_mix(entry_obs, vx_hash_bytes(42, &a, 8));
            entry_obs = vx_mix(entry_obs, vx_hash_bytes(43, &b, 8));
        }
        /* common random numbers: every trial first draws from one and the same seed, whatever seed the trial that ran
         * before it on this thread used last (see the end of the trial: it was this very one) */
        cmb_random_initialize(0xC0FFEEull);
        {
            const uint64_t crn = cmb_random_sfc64();
            entry_obs = vx_mix(entry_obs, crn);
        }
        uint64_t result;
        switch (idx % 4) {
        case 0:
            result = rng_probe(seed);
            break;
        case 1:
            if (SZ >= sizeof(struct model) + 16 && !use_malloc) {
                result = run_model((struct model *)(ep + 16), seed, false);
            }
            else if (use_malloc) {
                struct model *m = calloc(1, sizeof *m);
                result = run_model(m, seed, false);
                free(m);
            }
            else {
                result = rng_probe(seed + 17);
            }
            break;
        case 2:
            cmb_logger_flags_off(CMB_LOGGER_INFO);
            result = rng_probe(seed + 3);
            if (param & 1) {
                cmb_logger_flags_on(CMB_LOGGER_INFO);
                cmb_logger_flags_off(CMB_LOGGER_INFO);
            }
            break;
        default:
            if (SZ >= sizeof(struct model) + 16 && !use_malloc) {
                result = run_model((struct model *)(ep + 16), seed, true);
            }
            else {
                result = rng_probe(seed + 99);
                for (int k = 0; k < 40; k++) {
                    (void)cmb_random_flip();
                }
            }
            break;
        }
        result = vx_mix(result, entry_obs);
        if (idx % 4 != 3) {
            /* ... and (except for the trials that leave the generator as their work left it) ends by drawing from it again */
            cmb_random_initialize(0xC0FFEEull);
            result = vx_mix(result, cmb_random_sfc64());
        }
        result |= 1ull << 63;
        if (SZ >= 16) {
            memcpy(ep + 8, &result, 8);
        }
        else {
            memcpy(ep, &result, 8);
        }
    }
    if (scheduled && in_experiment) {
        vxs_point("trial-return");
    }
    if (idx >= 0 && idx < T) {
        __atomic_add_fetch(&done_count[idx], 1, __ATOMIC_SEQ_CST);
    }
    if (err_trial && !scheduled && idx >= 0 && idx < T && T > 1) {
        /* free-running pass: every trial writes a line to the log when it is through, and the last element's trial
         * gives up the documented way - cmb_logger_error ends its replication thread and nothing else */
        if (idx == T - 1) {
            cmb_logger_error(log_sink, "trial %d gives up", idx);
        }
        cmb_logger_warning(log_sink, "trial %d is through", idx);
    }
}

static void pilot_func(void *vp)
{
    unsigned char *ep = vp;
    uint64_t r = rng_probe(0x9177);
    r = vx_mix(r, run_model((struct model *)(ep + 16), 0x9178, false)) | 1u;
    memcpy(ep, &r, 8);
}

static void *interlude_thread(void *arg)
{
    pilot_func(arg);
    return NULL;
}

static void fill(unsigned char *a)
{
    memset(a, 0, (size_t)16 * SZ);
    for (int i = 0; i < T; i++) {
        const uint64_t param = 0x100u + (uint64_t)i * 7;
        memcpy(a + (size_t)i * SZ, &param, 8);
    }
}

static void *seq_thread(void *arg)
{
    (void)arg;
    for (int i = 0; i < T; i++) {
        trial_func(refarr + (size_t)i * SZ);
    }
    return NULL;
}

static void run_one(void)
{
    static const int TS_[5] = { 6, 1, 2, 3, 5 };
    const int tc = vx_choose_free(5, "trial-count");
    T = tc == 0 ? 6 : tc == 1 ? 1 : tc == 2 ? (W > 1 ? W - 1 : 2) : tc == 3 ? W : W + 2;
    (void)TS_;
    if (vx_opt_int("pilot", 1)) {
        /* a pilot experiment before the one under examination (free-running, one trial with the process /
         * resource / observer model): the experiment examined is then never the first one in the program, and
         * whatever the pilot's worker threads tore down on exit is met by it - in every execution alike */
        static unsigned char pilot_el[4096] __attribute__((aligned(16)));
        memset(pilot_el, 0, sizeof pilot_el);
        in_experiment = false;
        npilot = 0;
        in_pilot = true;
        cimba_run_experiment(pilot_el, 1u, sizeof pilot_el, pilot_func);
        in_pilot = false;
        __builtin_ia32_ldmxcsr(0x1f80);
        /* "returns only after all calls have finished": the pilot's one call writes its result last */
        uint64_t pilot_result;
        memcpy(&pilot_result, pilot_el, 8);
        for (int k = 0; k < npilot; k++) {
            if (!pilot_joined[k]) {
                __real_pthread_join(pilot_th[k], NULL); /* a worker nobody waited for must not wander into the experiment examined next */
            }
        }
        if (pilot_result == 0) {
            vx_violation("free:c19:returned-before-all-trials-finished", "cimba_run_experiment (1 trial, %d workers, free-running) "
                         "returned before its one trial call had finished", W);
            return;
        }
        /* ... and the program goes on using the library between its experiments, on a thread of its own */
        pthread_t it;
        __real_pthread_create(&it, NULL, interlude_thread, pilot_el);
        __real_pthread_join(it, NULL);
    }
    /* the real thing first: whatever its worker threads leave behind when they exit (they run the library's
     * thread clean-up) is then met by the sequential reference below and by the next execution's experiment -
     * a program may run several experiments and use the library in between */
    fill(arr);
    memset(exec_count, 0, sizeof exec_count);
    wrong_element = 0;
    cur_base = arr;
    if (scheduled) {
        vxs_begin();
    }
    memset(done_count, 0, sizeof done_count);
    nspawned = 0;
    in_experiment = true;
    cimba_run_experiment(arr, (uint64_t)T, SZ, trial_func);
    /* "returns only after all calls have finished": looked at before anything else runs */
    int unfinished = 0, first_unfinished = -1;
    for (int i = 0; i < T; i++) {
        if (__atomic_load_n(&done_count[i], __ATOMIC_SEQ_CST) == 0) {
            unfinished++;
            first_unfinished = first_unfinished < 0 ? i : first_unfinished;
        }
    }
    int unjoined = 0;
    if (scheduled) {
        /* worker threads the executive did not wait for are run to their end now, so that the execution can end */
        for (int k = 0; k < nspawned; k++) {
            if (!joined[k]) {
                unjoined++;
                vxs_join_tid(spawned[k]);
            }
        }
    }
    in_experiment = false;
    if (unfinished > 0) {
        FAIL("returned-before-all-trials-finished", "cimba_run_experiment returned while %d of %d trial call(s) had not finished "
             "(first: trial %d) and %d of its %d worker thread(s) had not been waited for (workers %d)", unfinished, T,
             first_unfinished, unjoined, nspawned, W);
        __builtin_ia32_ldmxcsr(0x1f80);
        return;
    }
    static int exec_saved[16], ran_saved[16];
    const int wrong_saved = wrong_element;
    memcpy(exec_saved, exec_count, sizeof exec_saved);
    memcpy(ran_saved, ran_on, sizeof ran_saved);
    /* sequential reference on a fresh thread */
    fill(refarr);
    cur_base = refarr;
    pthread_t th;
    __real_pthread_create(&th, NULL, seq_thread, NULL);
    __real_pthread_join(th, NULL);
    memcpy(exec_count, exec_saved, sizeof exec_saved);
    memcpy(ran_on, ran_saved, sizeof ran_saved);
    wrong_element = wrong_saved;
    cur_base = arr;
    __builtin_ia32_ldmxcsr(0x1f80); /* cimba_run_experiment unmasks FP exceptions for the caller */
    vx_transitions((uint64_t)T);
    if (wrong_element) {
        FAIL("wrong-element", "the trial function was called %d time(s) with a pointer that is not an element of the array", wrong_element);
        return;
    }
    for (int i = 0; i < T; i++) {
        if (exec_count[i] != 1) {
            char rule[80];
            snprintf(rule, sizeof rule, "exactly-once:%s", exec_count[i] == 0 ? "trial-not-run" : "trial-run-twice");
            FAIL(rule, "trial %d of %d ran %d times (workers %d)", i, T, exec_count[i], W);
            return;
        }
    }
    for (int i = 0; i < T; i++) {
        if (memcmp(arr + (size_t)i * SZ, refarr + (size_t)i * SZ, SZ >= 16 ? 16 : 8) != 0) {
            static const char *KN[4] = { "rng", "process-model", "logger-flags", "leaves-blocked-processes" };
            char rule[100];
            snprintf(rule, sizeof rule, "result-differs-from-sequential:%s-trial", KN[i % 4]);
            uint64_t a, b;
            memcpy(&a, arr + (size_t)i * SZ + (SZ >= 16 ? 8 : 0), 8);
            memcpy(&b, refarr + (size_t)i * SZ + (SZ >= 16 ? 8 : 0), 8);
            FAIL(rule, "trial %d of %d (workers %d): result %#" PRIx64 ", sequential reference %#" PRIx64, i, T, W, a, b);
            return;
        }
    }
    /* the assignment of trials to workers actually executed */
    uint64_t h = (uint64_t)T;
    for (int i = 0; i < T; i++) {
        h = vx_mix(h, (uint64_t)ran_on[i]);
    }
    vx_outcome(h);
    vx_state(vx_mix(h, (uint64_t)W));
}

static void ginit(void)
{
    W = (int)vx_opt_int("workers", 2);
    SZ = (size_t)vx_opt_int("size", 24);
    scheduled = strcmp(vx_opt("mode", "sched"), "free") != 0;
    use_malloc = !strcmp(vx_opt("alloc", "embedded"), "malloc");
    arr = malloc(16 * SZ);
    refarr = malloc(16 * SZ);
    vxs_real_create = __real_pthread_create;
    vxs_real_join = __real_pthread_join;
    cmb_logger_flags_off(0x7FFFFFFFu);
    err_trial = vx_opt_int("errtrial", 0) != 0;
    log_sink = fopen("/dev/null", "w");
}

int main(int argc, char **argv)
{
    struct vx_harness h = { "c19_experiment", run_one, NULL, ginit };
    return vx_main(argc, argv, &h);
}
