/*
 * C03 - context switches preserve each coroutine's execution state and deliver
 * messages. API level (cmi_coroutine_*) and seam level (raw
 * cmi_coroutine_context_switch), with an assembly probe (c03_coroutine.S).
 *
 * options: mode=api|seam  ncor=N  depth=D
 */
#include <inttypes.h>
#include <stdio.h>
#include <stdlib.h>
#include <string.h>

#include "vx_explore.h"

#include "cmb_logger.h"
#include "cmi_coroutine.h"

struct vx_pat {
    uint64_t r[6];
    uint32_t mxcsr;
    uint32_t pad;
    uint8_t canary[256];
};

extern uint64_t vx_probe(void *fn, uint64_t a0, uint64_t a1, uint64_t a2, const struct vx_pat *in,
                         struct vx_pat *out);
extern void *vx_entry_stub(struct cmi_coroutine *cp, void *ctx);
extern uint64_t vx_entry_rsp, vx_entry_rdi, vx_entry_rsi;
extern uint32_t vx_entry_mxcsr;
extern void *cmi_coroutine_context_switch(void **old, void **new, void *ret);
extern void cmi_coroutine_context_init(struct cmi_coroutine *cp);

#define MAXC 4
#define STACKSZ (48 * 1024)
#define END_MSG ((void *)(uintptr_t)0xE0D)

static const char *mode;
static int N, D;
static bool is_asan;

extern CMB_THREAD_LOCAL struct cmi_coroutine *coroutine_main;
static struct cmi_coroutine co[MAXC + 1]; /* 1..N; 0 unused (main is the library's) */
static void *ctxval[MAXC + 1];

/* ---- reference model */
enum { ST_CREATED, ST_RUNNING, ST_FINISHED };
static int m_cur, m_status[MAXC + 1], m_caller[MAXC + 1], m_parent[MAXC + 1], m_incarn[MAXC + 1];
static void *m_exit[MAXC + 1];
static void *m_expmsg[MAXC + 1];
static bool m_expentry[MAXC + 1];
static int budget;
static uint64_t pcount;
static bool finished_run;
static const char *lastop = "";
static uint64_t g_counter; /* pattern rotation: a function of the choices of this execution (replayable) */

static char g_sig[200];
#define FAIL(rule, ...) do { snprintf(g_sig, sizeof g_sig, "c03:%s:%s", mode, rule); vx_violation(g_sig, __VA_ARGS__); finished_run = true; } while (0)

static const char *const RN[6] = { "rbx", "rbp", "r12", "r13", "r14", "r15" };

static void gen_pattern(struct vx_pat *p, int id)
{
    const uint64_t c = g_counter++;
    for (int i = 0; i < 6; i++) {
        const uint64_t tag = 0xC0DE000000000000ull | ((uint64_t)id << 40) | ((c & 0xFFFFFF) << 8) | (uint64_t)i;
        const unsigned bit = (unsigned)((c * 7 + (uint64_t)i * 11) % 64);
        switch ((c + (uint64_t)i) % 5) {
        case 0: p->r[i] = ~0ull; break;
        case 1: p->r[i] = 0; break;
        case 2: p->r[i] = 1ull << bit; break;
        case 3: p->r[i] = ~(1ull << bit); break;
        default: p->r[i] = tag; break;
        }
    }
    /* MXCSR control bits: rounding mode x exception masks x DAZ/FTZ, status flags clear */
    const uint32_t rc = (uint32_t)(c & 3), masks = (uint32_t)((c >> 2) & 63), daz = (uint32_t)((c >> 8) & 1),
                   ftz = (uint32_t)((c >> 9) & 1);
    p->mxcsr = (daz << 6) | (masks << 7) | (rc << 13) | (ftz << 15);
    p->pad = 0;
    for (int k = 0; k < 256; k++) {
        p->canary[k] = (uint8_t)((c * 31 + (uint64_t)k * 17 + (uint64_t)id) & 0xff);
    }
}

static bool check_pattern(const struct vx_pat *in, const struct vx_pat *out, int id, const char *op)
{
    char rule[120];
    for (int i = 0; i < 6; i++) {
        if (in->r[i] != out->r[i]) {
            snprintf(rule, sizeof rule, "register-not-preserved:%s", RN[i]);
            FAIL(rule, "coroutine %d: %s was %#" PRIx64 " before %s and %#" PRIx64 " when control came back", id,
                 RN[i], in->r[i], op, out->r[i]);
            return false;
        }
    }
    if ((in->mxcsr & 0xFFC0u) != (out->mxcsr & 0xFFC0u)) {
        snprintf(rule, sizeof rule, "mxcsr-not-preserved:%s", ((in->mxcsr ^ out->mxcsr) & 0x6000u) ? "rounding-mode" : "masks-or-flush-bits");
        FAIL(rule, "coroutine %d: MXCSR control bits were %#x before %s and %#x when control came back", id,
             in->mxcsr & 0xFFC0u, op, out->mxcsr & 0xFFC0u);
        return false;
    }
    if (memcmp(in->canary, out->canary, 256) != 0) {
        FAIL("stack-contents-changed", "coroutine %d: the 256 bytes of stack above the call to %s changed while it was suspended", id, op);
        return false;
    }
    return true;
}

/* ------------------------------------------------------------------ API level */
enum { OP_YIELD, OP_RESUME, OP_TRANSFER, OP_START, OP_STOP, OP_STOPSELF, OP_EXIT, OP_RETURN };
struct op { int kind, target, depth; };

static bool suspended_ok(int k)
{
    return m_status[k] == ST_RUNNING && k != m_cur;
}

static int build_menu(int x, struct op *menu)
{
    int n = 0;
    static const int DEPTHS[3] = { 0, 3, 17 };
    if (x != 0 && suspended_ok(m_caller[x])) {
        for (int d = 0; d < 3; d++) {
            menu[n++] = (struct op){ OP_YIELD, 0, DEPTHS[d] };
        }
    }
    for (int k = 0; k <= N; k++) {
        if (k == x) {
            continue;
        }
        if (suspended_ok(k)) {
            menu[n++] = (struct op){ OP_RESUME, k, 0 };
            menu[n++] = (struct op){ OP_TRANSFER, k, 0 };
            menu[n++] = (struct op){ OP_TRANSFER, k, 17 };
            if (k != 0) {
                menu[n++] = (struct op){ OP_STOP, k, 0 };
            }
        }
        if (k != 0 && m_status[k] != ST_RUNNING) {
            menu[n++] = (struct op){ OP_START, k, 0 };
            if (m_status[k] == ST_FINISHED) {
                /* the other documented way to run it again: cmi_coroutine_reset (back to "created"), then start */
                menu[n++] = (struct op){ OP_START, k, 1 };
            }
        }
    }
    if (x != 0 && suspended_ok(m_parent[x])) {
        menu[n++] = (struct op){ OP_STOPSELF, 0, 0 };
        menu[n++] = (struct op){ OP_EXIT, 0, 0 };
        menu[n++] = (struct op){ OP_RETURN, 0, 0 };
    }
    return n;
}

static struct cmi_coroutine *cptr(int k)
{
    return k == 0 ? cmi_coroutine_main() : &co[k];
}

static uint64_t call_probe_at_depth(int depth, void *fn, uint64_t a0, uint64_t a1, const struct vx_pat *in,
                                    struct vx_pat *out)
{
    if (depth > 0) {
        /* carry volatile locals through every frame so that the switch happens deep in the stack */
        volatile uint64_t guard[4] = { 0xA5A5A5A500000000ull + (uint64_t)depth, a0, a1, (uint64_t)(uintptr_t)in };
        const uint64_t r = call_probe_at_depth(depth - 1, fn, a0, a1, in, out);
        if (guard[0] != 0xA5A5A5A500000000ull + (uint64_t)depth || guard[1] != a0 || guard[2] != a1
            || guard[3] != (uint64_t)(uintptr_t)in) {
            FAIL("frame-locals-changed", "locals of a frame %d levels above the switch changed while suspended", depth);
        }
        return r;
    }
    return vx_probe(fn, a0, a1, 0, in, out);
}

/* perform one operation from coroutine x; returns false when the body must return (OP_RETURN) */
static bool perform(int x, const struct op *o, void **retval)
{
    struct vx_pat in, out;
    gen_pattern(&in, x);
    memset(&out, 0, sizeof out);
    const uint64_t msg = 0x1000000u + (pcount++ << 8) + (uint64_t)x;
    void *fn = NULL;
    uint64_t a0 = 0, a1 = 0;
    bool returns_msg = true;
    const int t = o->target;
    static char opn[40];
    switch (o->kind) {
    case OP_YIELD:
        fn = (void *)cmi_coroutine_yield;
        a0 = msg;
        m_expmsg[m_caller[x]] = (void *)(uintptr_t)msg;
        m_cur = m_caller[x];
        m_caller[m_cur] = x; /* every transfer records where it came from, a yield too */
        snprintf(opn, sizeof opn, "yield@depth%d", o->depth);
        break;
    case OP_RESUME:
    case OP_TRANSFER:
        fn = o->kind == OP_RESUME ? (void *)cmi_coroutine_resume : (void *)cmi_coroutine_transfer;
        a0 = (uint64_t)(uintptr_t)cptr(t);
        a1 = msg;
        m_caller[t] = x;
        m_expmsg[t] = (void *)(uintptr_t)msg;
        m_cur = t;
        snprintf(opn, sizeof opn, "%s@depth%d", o->kind == OP_RESUME ? "resume" : "transfer", o->depth);
        break;
    case OP_START:
        if (o->depth == 1) {
            cmi_coroutine_reset(cptr(t));
            if (cmi_coroutine_status(cptr(t)) != CMI_COROUTINE_CREATED || cmi_coroutine_exit_value(cptr(t)) != NULL) {
                FAIL("reset", "coroutine %d after cmi_coroutine_reset: status %d, exit value %p", t,
                     (int)cmi_coroutine_status(cptr(t)), cmi_coroutine_exit_value(cptr(t)));
            }
        }
        fn = (void *)cmi_coroutine_start;
        a0 = (uint64_t)(uintptr_t)cptr(t);
        a1 = msg;
        m_parent[t] = m_caller[t] = x;
        m_status[t] = ST_RUNNING;
        m_incarn[t]++;
        m_expentry[t] = true;
        m_cur = t;
        snprintf(opn, sizeof opn, "start");
        break;
    case OP_STOP:
        fn = (void *)cmi_coroutine_stop;
        a0 = (uint64_t)(uintptr_t)cptr(t);
        a1 = msg;
        m_status[t] = ST_FINISHED;
        m_exit[t] = (void *)(uintptr_t)msg;
        returns_msg = false;
        snprintf(opn, sizeof opn, "stop-other");
        break;
    case OP_STOPSELF:
    case OP_EXIT:
    case OP_RETURN:
        m_status[x] = ST_FINISHED;
        m_exit[x] = (void *)(uintptr_t)msg;
        m_expmsg[m_parent[x]] = (void *)(uintptr_t)msg;
        m_cur = m_parent[x];
        m_caller[m_cur] = x;
        if (o->kind == OP_RETURN) {
            *retval = (void *)(uintptr_t)msg;
            lastop = "return";
            return false;
        }
        fn = o->kind == OP_EXIT ? (void *)cmi_coroutine_exit : (void *)cmi_coroutine_stop;
        a0 = o->kind == OP_EXIT ? msg : (uint64_t)(uintptr_t)cptr(x);
        a1 = msg;
        snprintf(opn, sizeof opn, "%s", o->kind == OP_EXIT ? "exit" : "stop-self");
        break;
    }
    lastop = opn;
    vx_transition();
    if (vx_tracing()) {
        vx_trace("  C%d: %s target %d msg %#" PRIx64 "\n", x, opn, t, msg);
    }
    const uint64_t r = call_probe_at_depth(o->depth, fn, a0, a1, &in, &out);
    /* control is back in coroutine x (possibly much later) */
    if (finished_run) {
        return true;
    }
    if (o->kind == OP_STOPSELF || o->kind == OP_EXIT) {
        FAIL("returned-from-exit", "coroutine %d continued after %s", x, opn);
        return true;
    }
    if (m_cur != x) {
        char rule[100];
        snprintf(rule, sizeof rule, "control-in-wrong-coroutine:after-%s", lastop);
        FAIL(rule, "coroutine %d got control back from its %s, but the model says coroutine %d should be running", x, opn, m_cur);
        return true;
    }
    if (!check_pattern(&in, &out, x, opn)) {
        return true;
    }
    if (returns_msg && (void *)(uintptr_t)r != m_expmsg[x] && m_expmsg[x] != END_MSG) {
        char rule[100];
        snprintf(rule, sizeof rule, "wrong-message:%s-returned", o->kind == OP_YIELD ? "yield" : o->kind == OP_START ? "start" : "resume-or-transfer");
        FAIL(rule, "coroutine %d: %s returned %#" PRIx64 ", the value handed over was %p", x, opn, r, m_expmsg[x]);
        return true;
    }
    vx_outcome(vx_mix((uint64_t)x * 16 + (uint64_t)o->kind, r & 0xff));
    return true;
}

static uint64_t model_fp(void)
{
    uint64_t h = (uint64_t)m_cur;
    for (int k = 0; k <= N; k++) {
        h = vx_mix(h, (uint64_t)m_status[k] * 64 + (uint64_t)m_caller[k] * 8 + (uint64_t)m_parent[k]);
    }
    return vx_mix(h, (uint64_t)budget);
}

static void *interpreter(int x)
{
    while (!finished_run) {
        if (budget <= 0) {
            if (x == 0) {
                return NULL;
            }
            /* out of budget inside a coroutine: hand control to main, which ends the execution */
            m_expmsg[0] = END_MSG;
            m_caller[0] = x;
            m_cur = 0;
            finished_run = true;
            cmi_coroutine_transfer(cmi_coroutine_main(), END_MSG);
            return NULL; /* not reached in practice */
        }
        struct op menu[64];
        const int n = build_menu(x, menu);
        if (n == 0) {
            if (x == 0) {
                return NULL;
            }
            budget = 0;
            continue;
        }
        vx_state(model_fp());
        const int ci = vx_choose_free(n, "op");
        const struct op *o = &menu[ci];
        g_counter = g_counter * 37 + (uint64_t)ci * 11 + 5;
        budget--;
        void *rv = NULL;
        if (!perform(x, o, &rv)) {
            return rv;
        }
    }
    if (x != 0) {
        /* a violation was flagged: go back to main for good */
        cmi_coroutine_transfer(cmi_coroutine_main(), END_MSG);
    }
    return NULL;
}

/* C part of the coroutine function (reached through vx_entry_stub) */
void *vx_body_c(struct cmi_coroutine *cp, void *ctx)
{
    int x = -1;
    for (int k = 1; k <= N; k++) {
        if (cp == &co[k]) {
            x = k;
        }
    }
    if (!finished_run) {
        if (x < 0 || m_cur != x || !m_expentry[x]) {
            FAIL("unexpected-entry", "a coroutine function was entered with handle %p while the model expects coroutine %d", (void *)cp, m_cur);
        }
        else {
            m_expentry[x] = false;
            if ((void *)(uintptr_t)vx_entry_rdi != (void *)&co[x] || (void *)(uintptr_t)vx_entry_rsi != ctxval[x] || ctx != ctxval[x]) {
                FAIL("wrong-entry-arguments", "coroutine %d started with (%#" PRIx64 ", %#" PRIx64 "), expected (its handle %p, its context %p)",
                     x, vx_entry_rdi, vx_entry_rsi, (void *)&co[x], ctxval[x]);
            }
            else if (!is_asan && (vx_entry_rsp & 15u) != 8u) {
                FAIL("entry-stack-misaligned", "coroutine %d entered with rsp=%#" PRIx64 " (rsp mod 16 = %u, the ABI requires 8)", x,
                     vx_entry_rsp, (unsigned)(vx_entry_rsp & 15u));
            }
        }
    }
    if (vx_tracing()) {
        vx_trace("  C%d: function entered (incarnation %d)\n", x, x > 0 ? m_incarn[x] : 0);
    }
    if (x < 0 || finished_run) {
        cmi_coroutine_transfer(cmi_coroutine_main(), END_MSG);
    }
    return interpreter(x);
}

static void run_api(void)
{
    for (int k = 0; k <= N; k++) {
        m_status[k] = k == 0 ? ST_RUNNING : ST_CREATED;
        m_caller[k] = m_parent[k] = 0;
        m_incarn[k] = 0;
        m_exit[k] = NULL;
        m_expmsg[k] = NULL;
        m_expentry[k] = false;
    }
    m_cur = 0;
    budget = D;
    pcount = 1;
    finished_run = false;
    for (int k = 1; k <= N; k++) {
        memset(&co[k], 0, sizeof co[k]);
        ctxval[k] = (void *)(uintptr_t)(0xC7000 + (uintptr_t)k);
        /* stack sizes that are and are not multiples of 16 (any size is valid): the entry alignment read by the
         * probe must not depend on it */
        static const size_t ODD[4] = { 0, 0, 8, 1 };
        cmi_coroutine_initialize(&co[k], (cmi_coroutine_func *)vx_entry_stub, ctxval[k], NULL, STACKSZ + ODD[k & 3]);
    }
    /* every execution is a fresh program: the library's record of the main coroutine starts as it is created
     * (nobody has transferred into main yet), whatever earlier executions in this worker left in it */
    if (coroutine_main != NULL) {
        coroutine_main->caller = NULL;
        coroutine_main->parent = NULL;
        coroutine_main->exit_value = NULL;
    }
    interpreter(0);
    /* back in main for good: exit values of finished coroutines */
    if (vx_violations_this_exec() == 0) {
        for (int k = 1; k <= N; k++) {
            if (m_status[k] == ST_FINISHED) {
                if (cmi_coroutine_status(&co[k]) != CMI_COROUTINE_FINISHED || cmi_coroutine_exit_value(&co[k]) != m_exit[k]) {
                    FAIL("exit-value", "coroutine %d: status %d exit value %p, expected FINISHED with %p", k,
                         (int)cmi_coroutine_status(&co[k]), cmi_coroutine_exit_value(&co[k]), m_exit[k]);
                    break;
                }
            }
            else if ((int)cmi_coroutine_status(&co[k]) != (m_status[k] == ST_CREATED ? CMI_COROUTINE_CREATED : CMI_COROUTINE_RUNNING)) {
                FAIL("status", "coroutine %d: status %d, model %d", k, (int)cmi_coroutine_status(&co[k]), m_status[k]);
                break;
            }
        }
    }
    for (int k = 1; k <= N; k++) {
        if (m_status[k] == ST_FINISHED && vx_violations_this_exec() == 0) {
            /* giving the stack back leaves the record of the finished coroutine as it is: "the exit value is still there" */
            cmi_coroutine_terminate(&co[k]);
            vx_transition();
            if (cmi_coroutine_status(&co[k]) != CMI_COROUTINE_FINISHED || cmi_coroutine_exit_value(&co[k]) != m_exit[k]) {
                FAIL("exit-value-after-terminate", "coroutine %d after cmi_coroutine_terminate: status %d exit value %p, expected "
                     "FINISHED with %p", k, (int)cmi_coroutine_status(&co[k]), cmi_coroutine_exit_value(&co[k]), m_exit[k]);
            }
            if (co[k].stack != NULL) {
                free(co[k].stack);
            }
        }
        else {
            free(co[k].stack);
        }
        co[k].stack = NULL;
    }
    coroutine_current = coroutine_main;
}

/* ------------------------------------------------------------------ seam level */
static void *s_sp[MAXC + 1];  /* saved stack pointers; 0 = main */
static bool s_started[MAXC + 1];
static int s_cur;
static void *s_expmsg[MAXC + 1];

static void seam_loop(int x);

static void *seam_body(struct cmi_coroutine *cp, void *ctx)
{
    (void)ctx;
    __builtin_ia32_ldmxcsr(0x1f80); /* a new context starts with exceptions unmasked; this is C code */
    int x = -1;
    for (int k = 1; k <= N; k++) {
        if (cp == &co[k]) {
            x = k;
        }
    }
    if (x < 0 || s_cur != x) {
        FAIL("seam-unexpected-entry", "raw context entered with handle %p, expected context %d", (void *)cp, s_cur);
        cmi_coroutine_context_switch(&s_sp[x < 0 ? 1 : x], &s_sp[0], END_MSG);
    }
    seam_loop(x);
    return NULL;
}

void *vx_seam_entry(struct cmi_coroutine *cp, void *ctx);

static void seam_loop(int x)
{
    for (;;) {
        if (budget <= 0 || finished_run) {
            if (x == 0) {
                return;
            }
            s_cur = 0;
            s_expmsg[0] = END_MSG;
            cmi_coroutine_context_switch(&s_sp[x], &s_sp[0], END_MSG);
            continue; /* if ever switched into again */
        }
        /* choose a target other than self */
        int tg[MAXC + 1], nt = 0;
        for (int k = 0; k <= N; k++) {
            if (k != x) {
                tg[nt++] = k;
            }
        }
        uint64_t h = (uint64_t)s_cur * 64 + (uint64_t)budget;
        for (int k = 1; k <= N; k++) {
            h = vx_mix(h, s_started[k]);
        }
        vx_state(h);
        const int ti = vx_choose_free(nt, "switch-to");
        const int t = tg[ti];
        g_counter = g_counter * 37 + (uint64_t)ti * 11 + 5;
        budget--;
        struct vx_pat in, out;
        gen_pattern(&in, x);
        memset(&out, 0, sizeof out);
        const uint64_t msg = 0x2000000u + (pcount++ << 8) + (uint64_t)x;
        if (t != 0 && !s_started[t]) {
            s_started[t] = true;
        }
        s_expmsg[t] = (void *)(uintptr_t)msg;
        s_cur = t;
        vx_transition();
        if (vx_tracing()) {
            vx_trace("  ctx%d: raw switch to ctx%d msg %#" PRIx64 "\n", x, t, msg);
        }
        const uint64_t r = vx_probe((void *)cmi_coroutine_context_switch, (uint64_t)(uintptr_t)&s_sp[x],
                                    (uint64_t)(uintptr_t)&s_sp[t], msg, &in, &out);
        if (finished_run) {
            continue;
        }
        if (s_cur != x) {
            FAIL("seam-control-in-wrong-context", "context %d resumed but context %d should be running", x, s_cur);
            continue;
        }
        if (!check_pattern(&in, &out, x, "raw-context-switch")) {
            continue;
        }
        if ((void *)(uintptr_t)r != s_expmsg[x] && s_expmsg[x] != END_MSG) {
            FAIL("seam-wrong-message", "context %d: the switch returned %#" PRIx64 ", the value handed over was %p", x, r, s_expmsg[x]);
            continue;
        }
        vx_outcome(vx_mix((uint64_t)x, r & 0xff));
    }
}

static void run_seam(void)
{
    budget = D;
    pcount = 1;
    finished_run = false;
    s_cur = 0;
    for (int k = 1; k <= N; k++) {
        memset(&co[k], 0, sizeof co[k]);
        co[k].stack = malloc(STACKSZ);
        co[k].stack_base = co[k].stack + STACKSZ;
        co[k].cr_function = (cmi_coroutine_func *)seam_body;
        co[k].context = (void *)(uintptr_t)(0xC7000 + (uintptr_t)k);
        co[k].cr_exit = NULL;
        co[k].status = CMI_COROUTINE_RUNNING;
        cmi_coroutine_context_init(&co[k]);
        s_sp[k] = co[k].stack_pointer;
        s_started[k] = false;
    }
    s_sp[0] = NULL;
    seam_loop(0);
    for (int k = 1; k <= N; k++) {
        free(co[k].stack);
        co[k].stack = NULL;
    }
}

static void run_one(void)
{
    g_counter = 0;
    if (!strcmp(mode, "seam")) {
        run_seam();
    }
    else {
        run_api();
    }
}

static void dummy_exit(void *v)
{
    (void)v;
}

static void ginit(void)
{
    mode = vx_opt("mode", "api");
    N = (int)vx_opt_int("ncor", 2);
    if (N > MAXC) {
        N = MAXC;
    }
    D = (int)vx_opt_int("depth", 5);
#if defined(__SANITIZE_ADDRESS__)
    is_asan = true;
#elif defined(__has_feature)
#if __has_feature(address_sanitizer)
    is_asan = true;
#endif
#endif
    cmb_logger_flags_off(0x7FFFFFFFu);
    /* make the library create its main coroutine once */
    static struct cmi_coroutine boot;
    cmi_coroutine_initialize(&boot, NULL, NULL, dummy_exit, 4096);
    free(boot.stack);
}

int main(int argc, char **argv)
{
    struct vx_harness h = { "c03_coroutine", run_one, NULL, ginit };
    return vx_main(argc, argv, &h);
}
