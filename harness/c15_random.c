/*
 * C15 - random streams depend on the seed alone and are the documented
 * generator (sfc64 bootstrapped by splitmix64, 20 outputs discarded).
 *
 * options: mode=identity|history|threads|free  hist=N  nthreads=N
 */
#include <inttypes.h>
#include <math.h>
#include <pthread.h>
#include <stdio.h>
#include <stdlib.h>
#include <string.h>

#include "vx_explore.h"
#include "cimba.h"
#include "vx_sched.h"

#include "cmb_logger.h"
#include "cmb_random.h"

extern CMB_THREAD_LOCAL void (*cmi_verif_sfc64_pre)(void);

static const char *mode;

static char g_sig[200];
/* modes that run real, free-running threads (experiment workers): a finding may depend on their timing and is then
 * not replayable - signature class "free:", as for the free-running sanitizer pass */
static const char *g_sigclass = "";
static const char *g_prop = "c15"; /* --opt prop=c16: the thread modes registered under C16 (samplers under concurrency) */
#define FAIL(rule, ...) do { snprintf(g_sig, sizeof g_sig, "%s%s:%s", g_sigclass, g_prop, rule); vx_violation(g_sig, __VA_ARGS__); } while (0)

/* ------------------------------------------------------------------ reference generator */
struct refgen { uint64_t a, b, c, d; };

static uint64_t ref_splitmix(uint64_t *s)
{
    uint64_t z = (*s += 0x9e3779b97f4a7c15ull);
    z = (z ^ (z >> 30)) * 0xbf58476d1ce4e5b9ull;
    z = (z ^ (z >> 27)) * 0x94d049bb133111ebull;
    return z ^ (z >> 31);
}

static uint64_t ref_sfc64(struct refgen *g)
{
    const uint64_t tmp = g->a + g->b + g->d++;
    g->a = g->b ^ (g->b >> 11);
    g->b = g->c + (g->c << 3);
    g->c = ((g->c << 24) | (g->c >> 40)) + tmp;
    return tmp;
}

static void ref_seed(struct refgen *g, uint64_t seed)
{
    uint64_t s = seed;
    g->a = ref_splitmix(&s);
    g->b = ref_splitmix(&s);
    g->c = ref_splitmix(&s);
    g->d = ref_splitmix(&s);
    for (int i = 0; i < 20; i++) {
        (void)ref_sfc64(g);
    }
}

static bool check_seed(uint64_t seed)
{
    struct refgen g;
    ref_seed(&g, seed);
    cmb_random_initialize(seed);
    if (cmb_random_curseed() != seed) {
        FAIL("identity:curseed", "curseed() returns %#" PRIx64 " after initialize(%#" PRIx64 ")", cmb_random_curseed(), seed);
        return false;
    }
    for (int k = 0; k < 64; k++) {
        const uint64_t want = ref_sfc64(&g);
        const uint64_t got = cmb_random_sfc64();
        if (got != want) {
            char rule[80];
            snprintf(rule, sizeof rule, "identity:raw-stream-differs:%s", k == 0 ? "first-output" : "later-output");
            FAIL(rule, "seed %#" PRIx64 ": output %d is %#" PRIx64 ", the documented sfc64/splitmix64 generator gives %#" PRIx64,
                 seed, k, got, want);
            return false;
        }
    }
    vx_transitions(64);
    return true;
}

/* the splitmix64 output function is a bijection: undo it (multiplicative inverses mod 2^64, xorshifts unwound) */
static uint64_t unxorshift(uint64_t z, int s)
{
    uint64_t r = z;
    for (int k = s; k < 64; k += s) {
        r = z ^ (r >> s);
    }
    return r;
}

static uint64_t mulinv(uint64_t c)
{
    uint64_t x = c; /* Newton: correct to 3 bits, doubles each round */
    for (int k = 0; k < 6; k++) {
        x *= 2 - c * x;
    }
    return x;
}

static uint64_t splitmix_state_for_output(uint64_t v)
{
    uint64_t z = unxorshift(v, 31);
    z *= mulinv(0x94d049bb133111ebull);
    z = unxorshift(z, 27);
    z *= mulinv(0xbf58476d1ce4e5b9ull);
    return unxorshift(z, 30);
}

static void run_identity(void)
{
    const int blk = vx_choose_free(67, "seed-block");
    uint64_t acc = 0;
    if (blk < 64) {
        for (uint64_t s = (uint64_t)blk * 1024; s < (uint64_t)(blk + 1) * 1024; s++) {
            if (!check_seed(s)) {
                return;
            }
            acc = vx_mix(acc, cmb_random_sfc64());
            vx_state(s);
        }
    }
    else if (blk == 64) {
        for (int b = 0; b < 64; b++) {
            if (!check_seed(1ull << b)) {
                return;
            }
            acc = vx_mix(acc, cmb_random_sfc64());
            vx_state(1ull << b);
        }
    }
    else if (blk == 66) {
        /* seeds chosen by what they do to the bootstrap: each of the four words that splitmix64 hands to sfc64 (a, b, c
         * and the counter d) is made 0, 1, 2^63, 2^64-1 in turn (a word of 0 comes from a splitmix state of 0) */
        static const uint64_t V[] = { 0, 1, 0x8000000000000000ull, UINT64_MAX };
        for (unsigned w = 1; w <= 4; w++) {
            for (unsigned k = 0; k < 4; k++) {
                const uint64_t seed = splitmix_state_for_output(V[k]) - w * 0x9e3779b97f4a7c15ull;
                uint64_t st = seed, out = 0;
                for (unsigned i = 0; i < w; i++) {
                    out = ref_splitmix(&st);
                }
                if (out != V[k]) {
                    vx_violation("harness:splitmix-inverse", "the harness's own inverse of splitmix64 is wrong");
                    return;
                }
                if (!check_seed(seed)) {
                    return;
                }
                acc = vx_mix(acc, cmb_random_sfc64());
                vx_state(seed);
            }
        }
    }
    else {
        static const uint64_t S[] = { UINT64_MAX, 0x0000DEAD5EED0000ull, 0x8000000000000001ull, 0x123456789abcdef0ull,
                                      UINT64_MAX - 1, 0x00000000FFFFFFFFull, 0xFFFFFFFF00000000ull };
        for (unsigned k = 0; k < sizeof S / sizeof S[0]; k++) {
            if (!check_seed(S[k])) {
                return;
            }
            acc = vx_mix(acc, cmb_random_sfc64());
            vx_state(S[k]);
        }
    }
    vx_outcome(acc);
}

/* ------------------------------------------------------------------ very long runs
 * the 2^32 + 4096 draws that follow a seeding, every one compared with the reference generator (a counter, an index
 * or a cache position narrower than 64 bits wraps on the way) */
static void run_longrun(void)
{
    static const uint64_t LS[2] = { 0x5EED0001ull, 0xFFFFFFFFFFFFFFF1ull };
    const uint64_t seed = LS[vx_choose_free(2, "seed")];
    struct refgen g;
    ref_seed(&g, seed);
    cmb_random_initialize(seed);
    const uint64_t total = (UINT64_C(1) << 32) + 4096;
    uint64_t acc = 0;
    for (uint64_t k = 0; k < total; k++) {
        const uint64_t want = ref_sfc64(&g);
        const uint64_t got = cmb_random_sfc64();
        if (got != want) {
            char rule[96];
            snprintf(rule, sizeof rule, "longrun:raw-stream-differs:%s", k < (UINT64_C(1) << 32) ? "before-2^32" : "after-2^32");
            FAIL(rule, "seed %#" PRIx64 ": raw draw number %" PRIu64 " is %#" PRIx64 ", the documented generator gives %#" PRIx64,
                 seed, k + 1, got, want);
            return;
        }
        acc ^= got;
    }
    vx_transitions(1u << 20);
    vx_state(seed);
    vx_outcome(acc);
}

/* ------------------------------------------------------------------ the probe */
#define PROBE_N 96
struct probe { uint64_t v[PROBE_N]; int n; };

static uint64_t dbits(double d)
{
    uint64_t u;
    memcpy(&u, &d, 8);
    return u;
}

static struct cmb_random_alias *g_alias;
static const double P4[4] = { 0.1, 0.2, 0.3, 0.4 };

static void run_probe(struct probe *p, bool small)
{
    int n = 0;
#define PUT(x) do { if (n < PROBE_N) p->v[n++] = (x); } while (0)
    PUT(cmb_random_sfc64());
    PUT(dbits(cmb_random()));
    for (int k = 0; k < 3; k++) {
        PUT((uint64_t)cmb_random_flip());
    }
    PUT(dbits(cmb_random_std_normal()));
    PUT(dbits(cmb_random_exponential(2.0)));
    PUT((uint64_t)cmb_random_geometric(0.3));
    PUT(dbits(cmb_random_gamma(0.5, 1.0)));
    uint64_t f = 0;
    for (int k = 0; k < 70; k++) {
        f = (f << 1) ^ (uint64_t)cmb_random_flip() ^ (f >> 63);
    }
    PUT(f);
    PUT(dbits(cmb_random_gamma(2.5, 1.0)));
    if (!small) {
        PUT(dbits(cmb_random_uniform(-1.0, 3.0)));
        PUT(dbits(cmb_random_normal(1.0, 2.0)));
        PUT(dbits(cmb_random_std_exponential()));
        PUT(dbits(cmb_random_erlang(3, 0.5)));
        PUT(dbits(cmb_random_std_beta(2.0, 3.0)));
        PUT(dbits(cmb_random_triangular(0.0, 1.0, 4.0)));
        PUT(dbits(cmb_random_weibull(1.5, 2.0)));
        PUT(dbits(cmb_random_pareto(2.0, 1.0)));
        PUT((uint64_t)cmb_random_bernoulli(0.4));
        PUT((uint64_t)cmb_random_binomial(5, 0.4));
        PUT((uint64_t)cmb_random_poisson(2.0));
        PUT((uint64_t)cmb_random_dice(1, 6));
        PUT((uint64_t)cmb_random_loaded_dice(4, P4));
        PUT((uint64_t)cmb_random_alias_sample(g_alias));
        PUT(dbits(cmb_random_logistic(0.0, 1.0)));
        PUT(dbits(cmb_random_cauchy(0.0, 1.0)));
        PUT(dbits(cmb_random_chisquared(3.0)));
        PUT(dbits(cmb_random_std_t_dist(4.0)));
        PUT(dbits(cmb_random_rayleigh(1.0)));
        PUT(dbits(cmb_random_lognormal(0.0, 0.5)));
        PUT(dbits(cmb_random_PERT(0.0, 1.0, 3.0)));
        PUT(dbits(cmb_random_F_dist(3.0, 5.0)));
        PUT((uint64_t)cmb_random_negative_binomial(2, 0.5));
        /* valid parameters whose variates (or intermediates) are subnormal: bit-identical on every thread
         * only if every thread computes with the same floating-point environment */
        PUT(dbits(cmb_random_exponential(3e-308)));
        PUT(dbits(cmb_random_exponential(3e-308)));
        PUT(dbits(cmb_random_gamma(0.001, 1.0)));
        PUT(dbits(cmb_random_weibull(0.001, 1.0)));
        PUT(dbits(cmb_random_uniform(0.0, 1e-310)));
        for (int k = 0; k < 5; k++) {
            PUT((uint64_t)cmb_random_flip());
        }
        PUT(cmb_random_sfc64());
    }
#undef PUT
    p->n = n;
}

/* reference probes computed on threads that have never used the generator */
struct refarg { uint64_t seed; bool small; struct probe out; };

static void *fresh_thread(void *a)
{
    struct refarg *r = a;
    cmb_random_initialize(r->seed);
    run_probe(&r->out, r->small);
    return NULL;
}

static void reference_probe(uint64_t seed, bool small, struct probe *out)
{
    struct refarg r = { .seed = seed, .small = small };
    pthread_t th;
    pthread_create(&th, NULL, fresh_thread, &r);
    pthread_join(th, NULL);
    *out = r.out;
}

static const uint64_t SEEDS[3] = { 0x5EED0001ull, 0xC0FFEEull, 0xFFFFFFFFFFFFFFF1ull };
static struct probe ref_full[3], ref_small[3];

static bool compare_probe(const struct probe *got, const struct probe *want, const char *what, const char *cause)
{
    for (int k = 0; k < want->n; k++) {
        if (got->v[k] != want->v[k]) {
            char rule[160];
            snprintf(rule, sizeof rule, "%s:%s:probe-value-%d", what, cause, k);
            FAIL(rule, "after seeding, probe value %d is %#" PRIx64 " but %#" PRIx64 " on a thread that never used the "
                 "generator before (same seed)", k, got->v[k], want->v[k]);
            return false;
        }
    }
    return true;
}

/* ------------------------------------------------------------------ history independence */
static const char *const HOPS[] = { "flip1", "flip7", "flip64", "gamma0.5", "gamma2.5", "geometric0.3", "std_normal",
                                    "exponential", "alias", "loaded_dice", "terminate", "initialize-other",
                                    "geometric1.0", "geometric0.7", "gamma1.0", "std_gamma2.5", "negbin2,1.0",
                                    "chisquared1", "std_beta0.5,0.5", "std_gamma2.5+1ulp", "initialize-seed0" };
#define NHOPS 21
#define NVALOPS 18 /* the ops that return a value (everything but terminate / initialize-other), renumbered */
static const int VALOP[NVALOPS] = { 0, 1, 2, 3, 4, 5, 6, 7, 8, 9, 12, 13, 14, 15, 16, 17, 18, 19 };

static uint64_t do_hist_op(int op)
{
    uint64_t r = 0;
    switch (op) {
    case 0: r = (uint64_t)cmb_random_flip(); break;
    case 1: for (int k = 0; k < 7; k++) r = r * 2 + (uint64_t)cmb_random_flip(); break;
    case 2: for (int k = 0; k < 64; k++) r = r * 2 + (uint64_t)cmb_random_flip(); break;
    case 3: r = dbits(cmb_random_gamma(0.5, 1.0)); break;
    case 4: r = dbits(cmb_random_gamma(2.5, 2.0)); break;
    case 5: r = (uint64_t)cmb_random_geometric(0.3); break;
    case 6: r = dbits(cmb_random_std_normal()); break;
    case 7: r = dbits(cmb_random_exponential(3.0)); break;
    case 8: r = (uint64_t)cmb_random_alias_sample(g_alias); break;
    case 9: r = (uint64_t)cmb_random_loaded_dice(4, P4); break;
    case 10: cmb_random_terminate(); break;
    case 11: cmb_random_initialize(0xABCDEF12345ull); break;
    case 12: r = (uint64_t)cmb_random_geometric(1.0); break;
    case 13: r = (uint64_t)cmb_random_geometric(0.7); break;
    case 14: r = dbits(cmb_random_gamma(1.0, 1.0)); break;
    case 15: r = dbits(cmb_random_std_gamma(2.5)); break;
    case 16: r = (uint64_t)cmb_random_negative_binomial(2, 1.0); break;
    case 17: r = dbits(cmb_random_chisquared(1.0)); break;
    case 18: r = dbits(cmb_random_std_beta(0.5, 0.5)); break;
    /* a shape one unit in the last place from the one of op 15: parameters remembered between calls are remembered exactly */
    case 19: r = dbits(cmb_random_std_gamma(nextafter(2.5, 3.0))); break;
    /* the very seed that may be set again after the history: seeding restarts the stream also when the seed is the one in use */
    default: cmb_random_initialize(SEEDS[0]); break;
    }
    vx_transition();
    return r;
}

/* after seeding: two chosen value-returning ops (so that every cached-parameter sampler is met as the
 * FIRST call after the seed with the same and with a different parameter than before it), their values and
 * the next raw word, then the fixed probe */
struct postarg { uint64_t seed; int op1, op2; uint64_t v[3]; struct probe out; };

static void run_post(struct postarg *a)
{
    cmb_random_initialize(a->seed);
    a->v[0] = do_hist_op(a->op1);
    a->v[1] = do_hist_op(a->op2);
    a->v[2] = cmb_random_sfc64();
    run_probe(&a->out, false);
}

static void *post_thread(void *arg)
{
    run_post(arg);
    return NULL;
}

static struct postarg ref_post[2][NVALOPS][NVALOPS];
static bool ref_post_done[2][NVALOPS][NVALOPS];

/* the reference for (seed, first op, second op): the same calls on a thread that never used the generator;
 * computed when first needed, inside an execution, so that a crash there is attributed to that execution */
static const struct postarg *post_reference(int si, int o1, int o2)
{
    struct postarg *a = &ref_post[si][o1][o2];
    if (!ref_post_done[si][o1][o2]) {
        a->seed = SEEDS[si];
        a->op1 = VALOP[o1];
        a->op2 = VALOP[o2];
        pthread_t th;
        pthread_create(&th, NULL, post_thread, a);
        pthread_join(th, NULL);
        ref_post_done[si][o1][o2] = true;
    }
    return a;
}

static void *history_thread(void *arg);

static void run_history(void)
{
    /* on a thread of its own: every execution starts from pristine thread-local state */
    pthread_t th;
    pthread_create(&th, NULL, history_thread, NULL);
    pthread_join(th, NULL);
}

static void *history_thread(void *arg)
{
    (void)arg;
    const int maxh = (int)vx_opt_int("hist", 3);
    const int len = vx_choose_free(maxh + 1, "history-length");
    char desc[160] = "";
    uint64_t h = (uint64_t)len;
    cmb_random_initialize(0x1111);
    for (int k = 0; k < len; k++) {
        const int op = vx_choose_free(NHOPS, "prior-op");
        do_hist_op(op);
        h = vx_mix(h, (uint64_t)op);
        if (strlen(desc) + 20 < sizeof desc) {
            strcat(desc, k ? "," : "");
            strcat(desc, HOPS[op]);
        }
    }
    vx_state(h);
    const int si = vx_choose_free(2, "seed");
    const int o1 = vx_choose_free(NVALOPS, "first-op-after-seed");
    const int o2 = vx_choose_free(NVALOPS, "second-op-after-seed");
    struct postarg a = { .seed = SEEDS[si], .op1 = VALOP[o1], .op2 = VALOP[o2] };
    run_post(&a);
    vx_outcome(vx_hash_bytes(1, a.out.v, sizeof(uint64_t) * (size_t)a.out.n) ^ vx_hash_bytes(2, a.v, sizeof a.v));
    if (vx_tracing()) {
        vx_trace("history [%s] then seed %#" PRIx64 " then %s, %s\n", desc, SEEDS[si], HOPS[VALOP[o1]], HOPS[VALOP[o2]]);
    }
    const struct postarg *want = post_reference(si, o1, o2);
    for (int k = 0; k < 3; k++) {
        if (a.v[k] != want->v[k]) {
            char rule[160];
            snprintf(rule, sizeof rule, "history:after-prior-draws:%s-after-seed:%s", k == 0 ? "first-op" : k == 1 ? "second-op" : "raw-word",
                     k < 2 ? HOPS[VALOP[k == 0 ? o1 : o2]] : "position");
            FAIL(rule, "after [%s], seeding with %#" PRIx64 " and calling %s, %s: value %d is %#" PRIx64 " but %#" PRIx64
                 " on a thread that never used the generator before", desc, SEEDS[si], HOPS[VALOP[o1]], HOPS[VALOP[o2]], k,
                 a.v[k], want->v[k]);
            return NULL;
        }
    }
    compare_probe(&a.out, &want->out, "history", "after-prior-draws");
    return NULL;
}

/* ------------------------------------------------------------------ threads under the scheduler */
static int nth;
static struct probe tprobe[3];

static uint64_t draw_order; /* which thread made which raw draw: the interleaving actually executed */

static void pre_hook(void)
{
    vxs_point("raw-draw");
    draw_order = vx_mix(draw_order, (uint64_t)vxs_self());
}

static void *sched_body(void *a)
{
    const int k = (int)(long)a;
    cmi_verif_sfc64_pre = pre_hook;
    cmb_random_initialize(SEEDS[k]);
    run_probe(&tprobe[k], true);
    cmi_verif_sfc64_pre = NULL;
    return NULL;
}

static void run_threads(void)
{
    vxs_begin();
    draw_order = 0;
    int tid[3];
    for (int k = 0; k < nth; k++) {
        tid[k] = vxs_spawn(NULL, sched_body, (void *)(long)k);
    }
    for (int k = 0; k < nth; k++) {
        vxs_join_tid(tid[k]);
    }
    vx_transitions(64);
    uint64_t h = 0;
    for (int k = 0; k < nth; k++) {
        h = vx_mix(h, vx_hash_bytes(1, tprobe[k].v, sizeof(uint64_t) * (size_t)tprobe[k].n));
        char what[40];
        snprintf(what, sizeof what, "threads:thread%d-of-%d", k, nth);
        if (!compare_probe(&tprobe[k], &ref_small[k], what, "interleaved-with-other-threads")) {
            break;
        }
    }
    vx_outcome(vx_mix(h, draw_order));
    vx_state(vx_mix(h, draw_order));
}

/* ------------------------------------------------------------------ free-running (for ThreadSanitizer) */
static void *free_body(void *a)
{
    const int k = (int)(long)a;
    for (int rep = 0; rep < 200; rep++) {
        cmb_random_initialize(SEEDS[k]);
        struct probe p;
        run_probe(&p, true);
        if (memcmp(p.v, ref_small[k].v, sizeof(uint64_t) * (size_t)p.n) != 0) {
            tprobe[k].n = -1;
        }
    }
    return NULL;
}

static void run_free(void)
{
    (void)vx_choose_free(1, "free-run");
    pthread_t th[3];
    for (int k = 0; k < 3; k++) {
        tprobe[k].n = 0;
        pthread_create(&th[k], NULL, free_body, (void *)(long)k);
    }
    for (int k = 0; k < 3; k++) {
        pthread_join(th[k], NULL);
        if (tprobe[k].n < 0) {
            vx_violation("free:c15:threads:values-differ", "thread %d saw values different from its solo run while other threads drew concurrently", k);
        }
    }
    vx_transitions(600);
    vx_state(1);
    vx_state(2);
    vx_outcome(7);
}

/* ------------------------------------------------------------------ the experiment executive's worker threads */
#define NTRIAL 8
struct xtrial { uint64_t seed; struct probe out; };
static struct xtrial xtr[NTRIAL];

static void xtrial_func(void *vp)
{
    struct xtrial *t = vp;
    cmb_random_initialize(t->seed);
    run_probe(&t->out, false);
    cmb_random_terminate();
}

static void *xhelper(void *arg)
{
    (void)arg;
    /* on a helper thread: cimba_run_experiment changes the caller's floating-point exception mask */
    cimba_run_experiment(xtr, NTRIAL, sizeof xtr[0], xtrial_func);
    return NULL;
}

static void run_experiment_mode(void)
{
    g_sigclass = "free:";
    const int rot = vx_choose_free(3, "seed-rotation");
    for (int i = 0; i < NTRIAL; i++) {
        xtr[i].seed = SEEDS[(i + rot) % 3];
        memset(&xtr[i].out, 0, sizeof xtr[i].out);
    }
    pthread_t th;
    pthread_create(&th, NULL, xhelper, NULL);
    pthread_join(th, NULL);
    vx_transitions(NTRIAL);
    uint64_t h = 0;
    for (int i = 0; i < NTRIAL; i++) {
        h = vx_mix(h, vx_hash_bytes(1, xtr[i].out.v, sizeof(uint64_t) * (size_t)xtr[i].out.n));
        char what[60];
        snprintf(what, sizeof what, "experiment:trial%d-on-a-worker-thread", i);
        if (!compare_probe(&xtr[i].out, &ref_full[(i + rot) % 3], what, "same-seed-as-plain-thread")) {
            break;
        }
    }
    vx_state(vx_mix(h, (uint64_t)rot));
    vx_outcome(h);
}

static void run_one(void)
{
    if (!strcmp(mode, "experiment")) { run_experiment_mode(); return; }
    if (!strcmp(mode, "longrun")) { run_longrun(); return; }
    if (!strcmp(mode, "identity")) run_identity();
    else if (!strcmp(mode, "history")) run_history();
    else if (!strcmp(mode, "threads")) run_threads();
    else run_free();
}

static void winit(void)
{
    g_alias = cmb_random_alias_create(4, P4);
    for (int k = 0; k < 3; k++) {
        reference_probe(SEEDS[k], false, &ref_full[k]);
        reference_probe(SEEDS[k], true, &ref_small[k]);
    }
}

static void ginit(void)
{
    mode = vx_opt("mode", "identity");
    g_prop = vx_opt("prop", "c15");
    nth = (int)vx_opt_int("nthreads", 2);
    cmb_logger_flags_off(0x7FFFFFFFu);
}

int main(int argc, char **argv)
{
    struct vx_harness h = { "c15_random", run_one, winit, ginit };
    return vx_main(argc, argv, &h);
}
