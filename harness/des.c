/*
 * des.c - the DES driver (mode P). See des.h and DESIGN.md section 2.5.
 *
 * options (all via --opt key=value):
 *   procs=N prios=a,b,.. budget=L res=N pool=CAP buf=CAP oq=CAP pq=CAP cond=0|1
 *   ops=op,op,..  ops<i>=..  script<i>=op,op,..  monitor=name[,name]
 *   preload=K start=all|chain maxevents=N prune=0|1 x0=V
 */
#include "des.h"

double des_tscale = 1.0, des_t0 = 0.0;
struct cmb_process des_arena[DES_NARENA];

#include <math.h>
#include <stdarg.h>
#include <unistd.h>

struct drv D;

/* declared in cmb_condition.h; referenced weakly so that a missing definition is a
 * reported violation instead of a link failure of the whole harness */
#pragma weak cmb_condition_cancel
#pragma weak cmb_condition_remove

extern CMB_THREAD_LOCAL struct cmi_mempool observer_tagpool;
extern CMB_THREAD_LOCAL struct cmi_mempool objectqueue_tags;
extern void cmi_mempool_cleanup(void *arg);

static struct cmi_mempool *POOLS[5];
static struct cmi_mempool pool_image[5];

/* ------------------------------------------------------------ configuration */

static struct opdef menu_ops[MAXP][MAXMENU];
static int menu_n[MAXP];
static struct opdef script_ops[MAXP][MAXSCRIPT];
static int script_n[MAXP];
static int cfg_budget[MAXP];
static int cfg_preload, cfg_chain, cfg_prune, cfg_cycle;
static uint64_t cfg_maxevents;
static int64_t cfg_x0;

#define MAXMON 4
static const struct monitor *mons[MAXMON];
static int nmons;

extern const struct monitor mon_mutex, mon_progress, mon_notif, mon_order, mon_pool, mon_endoflife,
    mon_buffer, mon_queue, mon_condition, mon_history, mon_none;
static const struct monitor *const ALLMONS[] = {
    &mon_mutex, &mon_progress, &mon_notif, &mon_order, &mon_pool, &mon_endoflife, &mon_buffer,
    &mon_queue, &mon_condition, &mon_history, &mon_none, NULL
};

#define MON(fn, ...) do { for (int m_ = 0; m_ < nmons; m_++) { \
        if (mons[m_]->fn) mons[m_]->fn(__VA_ARGS__); } } while (0)
#define MON0(fn) do { for (int m_ = 0; m_ < nmons; m_++) { \
        if (mons[m_]->fn) mons[m_]->fn(); } } while (0)

static const struct { const char *pfx; enum kind k; } KTAB[] = {
    { "hold", K_HOLD }, { "tadd", K_TADD }, { "tset", K_TSET }, { "tcancel", K_TCANCEL },
    { "tclro", K_TCLEARO }, { "taddo", K_TADDO }, { "cremoveb", K_CREMOVEB }, { "ccancelb", K_CCANCELB }, { "tclear", K_TCLEAR }, { "yield", K_YIELD }, { "resume", K_RESUME }, { "waitp", K_WAITP },
    { "waite", K_WAITE }, { "int", K_INT }, { "stopself", K_STOPSELF }, { "stop", K_STOP },
    { "exit", K_EXIT }, { "return", K_RETURN }, { "prio", K_PRIO }, { "racq", K_RACQ },
    { "rpre", K_RPRE }, { "rrel", K_RREL }, { "pacq", K_PACQ }, { "ppre", K_PPRE }, { "prel", K_PREL },
    { "bput", K_BPUT }, { "bget", K_BGET }, { "oqput", K_OQPUT }, { "oqget", K_OQGET },
    { "pqput", K_PQPUT }, { "pqget", K_PQGET }, { "pqcancel", K_PQCANCEL }, { "pqreprio", K_PQREPRIO },
    { "cwait", K_CWAIT }, { "cwaitb", K_CWAITB }, { "csig", K_CSIG }, { "setx", K_SETX }, { "ccancel", K_CCANCEL },
    { "cremove", K_CREMOVE }, { "csubb", K_CSUBB }, { "cunsubb", K_CUNSUBB }, { "csub", K_CSUB }, { "cunsub", K_CUNSUB }, { "evsched", K_EVSCHED }, { "evcancel", K_EVCANCEL },
    { "recon", K_RECON }, { "recoff", K_RECOFF }, { "restop", K_RESTOP }, { "rerec", K_REREC }, { "start", K_START }, { "nop", K_NOP },
    { NULL, K_NOP }
};

static bool parse_op(const char *s, size_t len, struct opdef *od)
{
    memset(od, 0, sizeof *od);
    if (len == 0 || len >= sizeof od->name) {
        return false;
    }
    memcpy(od->name, s, len);
    od->name[len] = 0;
    size_t al = 0;
    while (al < len && (od->name[al] < '0' || od->name[al] > '9') && od->name[al] != '.' && od->name[al] != '-') {
        al++;
    }
    int found = -1;
    for (int i = 0; KTAB[i].pfx; i++) {
        if (strlen(KTAB[i].pfx) == al && strncmp(KTAB[i].pfx, od->name, al) == 0) {
            found = i;
            break;
        }
    }
    if (found < 0) {
        /* allow a trailing letter variant: e.g. "tadd1u", "int1h", "resume1s" */
        return false;
    }
    od->kind = KTAB[found].k;
    char *e = od->name + al;
    if (*e) {
        od->a = strtoll(e, &e, 10);
    }
    if (*e == '.') {
        od->b = strtoll(e + 1, &e, 10);
    }
    else if (*e >= 'a' && *e <= 'z') {
        od->b = *e - 'a' + 1; /* variant letter: 'h'=8, 's'=19, 'u'=21 */
    }
    return true;
}

/* the amount of a pool or buffer operation: the number in its name, or with variant letter 'h' that number plus 2^63
 * (the upper half of the 64-bit range), or with 'm' nearly 2^64 */
static uint64_t op_amount(const struct opdef *od)
{
    if (od->b == 13) {
        return UINT64_MAX - 1;
    }
    if (od->b == 8) {
        return (UINT64_C(1) << 63) + (uint64_t)od->a;
    }
    return (uint64_t)od->a;
}

static int parse_list(const char *s, struct opdef *out, int max)
{
    int n = 0;
    while (s && *s) {
        const char *c = strchr(s, ',');
        size_t len = c ? (size_t)(c - s) : strlen(s);
        if (len > 0) {
            if (n >= max || !parse_op(s, len, &out[n])) {
                printf("VX-FATAL: bad op '%.*s'\n", (int)len, s);
                fflush(stdout);
                _exit(2);
            }
            n++;
        }
        s = c ? c + 1 : NULL;
    }
    return n;
}

static void parse_ints(const char *s, int64_t *out, int n, int64_t dflt)
{
    for (int i = 0; i < n; i++) {
        out[i] = dflt;
    }
    int i = 0;
    while (s && *s && i < n) {
        out[i++] = strtoll(s, (char **)&s, 10);
        if (*s == ',') {
            s++;
        }
    }
    /* a single value applies to all */
    if (i == 1) {
        for (int k = 1; k < n; k++) {
            out[k] = out[0];
        }
    }
}

static void configure(void)
{
    memset(&D, 0, sizeof D);
    D.P = (int)vx_opt_int("procs", 2);
    if (D.P > MAXP) {
        D.P = MAXP;
    }
    /* where the process objects live: side by side, or (collide=1) in slots of the arena whose addresses - the keys
     * under which a guard's waiting list and a pool's holder list file a process - all hash to the same place in maps
     * of up to 64 entries (top six bits of the Fibonacci product equal): lookups then have to probe past one another */
    {
        int chosen = 0;
        if (vx_opt_int("collide", 0)) {
            for (unsigned want = 0; want < 64 && chosen < MAXP; want++) {
                chosen = 0;
                for (int i = 0; i < DES_NARENA && chosen < MAXP; i++) {
                    const uint64_t key = (uint64_t)(uintptr_t)&des_arena[i];
                    if (((key * UINT64_C(11400714819323198485)) >> 58) == want) {
                        D.procp[chosen++] = &des_arena[i];
                    }
                }
            }
        }
        for (int p = chosen < MAXP ? 0 : MAXP; p < MAXP; p++) {
            D.procp[p] = &des_arena[p];
        }
    }
    int64_t tmp[MAXP];
    parse_ints(vx_opt("prios", "0"), tmp, MAXP, 0);
    for (int p = 0; p < MAXP; p++) {
        D.prio0[p] = tmp[p];
    }
    parse_ints(vx_opt("budget", "3"), tmp, MAXP, 3);
    for (int p = 0; p < MAXP; p++) {
        cfg_budget[p] = (int)tmp[p];
    }
    /* the clock: durations are the numbers in the op names times tscale (0.1: sums that are not exact in binary),
     * the simulation starts at t0 (negative: waits and waiting times straddle zero) */
    des_tscale = strtod(vx_opt("tscale", "1"), NULL);
    des_t0 = strtod(vx_opt("t0", "0"), NULL);
    D.nres = (int)vx_opt_int("res", 0);
    D.pool_cap = !strcmp(vx_opt("pool", "0"), "max") ? UINT64_MAX : strtoull(vx_opt("pool", "0"), NULL, 0);
    D.has_pool = D.pool_cap > 0;
    const char *bc = vx_opt("buf", "0");
    D.buf_cap = !strcmp(bc, "max") ? UINT64_MAX : strtoull(bc, NULL, 0);
    D.has_buf = D.buf_cap > 0;
    const char *qc = vx_opt("oq", "0");
    D.oq_cap = !strcmp(qc, "max") ? UINT64_MAX : strtoull(qc, NULL, 0);
    D.has_oq = D.oq_cap > 0;
    qc = vx_opt("pq", "0");
    D.pq_cap = !strcmp(qc, "max") ? UINT64_MAX : strtoull(qc, NULL, 0);
    D.has_pq = D.pq_cap > 0;
    D.has_cond = vx_opt_int("cond", 0) != 0;
    cfg_preload = (int)vx_opt_int("preload", 0);
    cfg_chain = !strcmp(vx_opt("start", "all"), "chain");
    cfg_prune = (int)vx_opt_int("prune", 0);
    cfg_cycle = (int)vx_opt_int("cycle", 0); /* scripts repeat until the budget is used up, without choice points */
    cfg_maxevents = (uint64_t)vx_opt_int("maxevents", 400);
    cfg_x0 = vx_opt_int("x0", 0);
    for (int p = 0; p < D.P; p++) {
        char key[24];
        snprintf(key, sizeof key, "ops%d", p);
        const char *ops = vx_opt(key, NULL);
        if (!ops) {
            ops = vx_opt("ops", "hold1");
        }
        menu_n[p] = parse_list(ops, menu_ops[p], MAXMENU);
        snprintf(key, sizeof key, "script%d", p);
        script_n[p] = parse_list(vx_opt(key, vx_opt("script", "")), script_ops[p], MAXSCRIPT);
    }
    nmons = 0;
    const char *ms = vx_opt("monitor", "none");
    while (ms && *ms) {
        const char *c = strchr(ms, ',');
        size_t len = c ? (size_t)(c - ms) : strlen(ms);
        bool ok = false;
        for (int i = 0; ALLMONS[i]; i++) {
            if (strlen(ALLMONS[i]->name) == len && !strncmp(ALLMONS[i]->name, ms, len) && nmons < MAXMON) {
                mons[nmons++] = ALLMONS[i];
                ok = true;
            }
        }
        if (!ok) {
            printf("VX-FATAL: unknown monitor '%.*s'\n", (int)len, ms);
            fflush(stdout);
            _exit(2);
        }
        ms = c ? c + 1 : NULL;
    }
}

/* ------------------------------------------------------------ helpers */

void des_fail(const char *sig, const char *fmt, ...)
{
    char detail[500];
    va_list ap;
    va_start(ap, fmt);
    vsnprintf(detail, sizeof detail, fmt, ap);
    va_end(ap);
    const char *ctx = "";
    char ctxbuf[700];
    for (int p = 0; p < D.P; p++) {
        if (D.residue[p].active) {
            snprintf(ctxbuf, sizeof ctxbuf, " [this confirms the residue noted earlier: %s: %s]", D.residue[p].sig,
                     D.residue[p].detail);
            ctx = ctxbuf;
            D.residue[p].confirmed++;
            break;
        }
    }
    vx_violation(sig, "t=%g: %s%s", cmb_time(), detail, ctx);
    D.abandon = true;
}

void des_residue(int p, const char *sig, const char *fmt, ...)
{
    if (D.residue[p].active) {
        return;
    }
    va_list ap;
    va_start(ap, fmt);
    vsnprintf(D.residue[p].detail, sizeof D.residue[p].detail, fmt, ap);
    va_end(ap);
    snprintf(D.residue[p].sig, sizeof D.residue[p].sig, "%s", sig);
    D.residue[p].active = true;
    D.residue[p].confirmed = 0;
    vx_counter(0, 1);
    vx_trace("  [t=%g] residue noted for P%d (%s): %s -- P%d now runs sentinel waits only\n", cmb_time(), p, sig,
             D.residue[p].detail, p);
}

int des_pidx(const struct cmb_process *pp)
{
    for (int p = 0; p < D.P; p++) {
        if (pp == &(*D.procp[p])) {
            return p;
        }
    }
    return -1;
}

const char *des_signame(int64_t s)
{
    static char buf[4][24];
    static int k;
    switch (s) {
    case CMB_PROCESS_SUCCESS: return "SUCCESS";
    case CMB_PROCESS_PREEMPTED: return "PREEMPTED";
    case CMB_PROCESS_INTERRUPTED: return "INTERRUPTED";
    case CMB_PROCESS_STOPPED: return "STOPPED";
    case CMB_PROCESS_CANCELLED: return "CANCELLED";
    case CMB_PROCESS_TIMEOUT: return "TIMEOUT";
    default:
        k = (k + 1) % 4;
        snprintf(buf[k], sizeof buf[k], "sig%" PRIi64, s);
        return buf[k];
    }
}

bool des_in_guard(const struct cmb_resourceguard *g, int p)
{
    const struct cmi_hashheap *hp = &g->priority_queue;
    if (hp->heap == NULL) {
        return false;
    }
    for (uint64_t j = 1; j <= hp->heap_count; j++) {
        if (hp->heap[j].item[0] == (void *)&(*D.procp[p])) {
            return true;
        }
    }
    return false;
}

int des_guard_count(const struct cmb_resourceguard *g)
{
    return g->priority_queue.heap ? (int)g->priority_queue.heap_count : 0;
}

static void env_action(void *s, void *o)
{
    (void)s;
    (void)o;
    vx_trace("  [t=%g] env event %" PRIu64 " executes\n", cmb_time(), cmb_event_current());
}

static void preload_action(void *s, void *o)
{
    (void)s;
    (void)o;
}

/* condition predicates */
static bool pred(const struct cmb_condition *c, const struct cmb_process *pp, const void *ctx)
{
    (void)c;
    (void)pp;
    switch ((int)(intptr_t)ctx) {
    case 0: return D.X >= 1;
    case 1: return D.X >= 2;
    case 2: return D.X == 0;
    case 3: return D.nres > 0 && cmb_resource_available(&D.res[0]) == 1;
    case 4: return D.has_pool && cmb_resourcepool_available(&D.pool) >= 2;
    case 5: return D.has_buf && cmb_buffer_level(&D.buf) <= 1;   /* "time to reorder" */
    case 6: return D.has_buf && cmb_buffer_level(&D.buf) >= 2;
    default: return false;
    }
}

bool des_pred_eval(int k)
{
    return pred(NULL, NULL, (void *)(intptr_t)k);
}

/* ------------------------------------------------------------ validity */

static bool proc_started(int q)
{
    return D.inited[q] && cmb_process_status(&(*D.procp[q])) == CMB_PROCESS_RUNNING;
}

static bool enabled(int p, const struct opdef *od)
{
    const int q = (int)od->a;
    switch (od->kind) {
    case K_HOLD: case K_TADD: case K_TSET: case K_TCLEAR: case K_YIELD: case K_STOPSELF:
    case K_EXIT: case K_RETURN: case K_NOP:
        return true;
    case K_TCANCEL:
        return D.ntimers[p] > 0;
    case K_RESUME:
        /* (also when a resume for the same yield is already on its way: whichever comes second is void) */
        return q != p && q < D.P && proc_started(q) && D.cur[q].active && D.cur[q].od->kind == K_YIELD;
    case K_WAITP:
        /* (also a process that has been initialised but not started yet: it can have waiters before it runs) */
        return q != p && q < D.P && D.inited[q];
    case K_WAITE:
        return q < NENVEV && D.envev[q] != 0 && cmb_event_is_scheduled(D.envev[q]);
    case K_INT: case K_STOP: case K_TCLEARO: case K_TADDO:
        return q != p && q < D.P && proc_started(q);
    case K_PRIO:
        return q < D.P && D.inited[q];
    case K_RACQ: case K_RPRE:
        return q < D.nres && !D.res_belief[p][q];
    case K_RREL:
        return q < D.nres && D.res_belief[p][q];
    case K_PACQ: case K_PPRE:
        return D.has_pool && od->a > 0 && op_amount(od) <= D.pool_cap && D.pool_held[p] <= D.pool_cap - op_amount(od);
    case K_PREL:
        return D.has_pool && od->a > 0 && D.pool_held[p] >= op_amount(od);
    case K_BPUT:
        return D.has_buf && (od->a > 0 || od->b == 13);
    case K_BGET:
        return D.has_buf;
    case K_OQPUT: case K_OQGET:
        return D.has_oq;
    case K_PQPUT: case K_PQGET:
        return D.has_pq;
    case K_PQCANCEL:
        return D.has_pq && D.pq_handle[p] != 0;
    case K_PQREPRIO:
        return D.has_pq && D.pq_handle[p] != 0 && cmb_priorityqueue_position(&D.pq, D.pq_handle[p]) != 0;
    case K_CWAIT: case K_CSIG: case K_SETX: case K_CWAITB:
        return D.has_cond || od->kind == K_SETX;
    case K_CCANCEL: case K_CREMOVE: case K_CREMOVEB: case K_CCANCELB:
        return D.has_cond && q != p && q < D.P && D.inited[q];
    case K_CSUB:
        return D.has_cond && D.nres > 0 && D.sub_res == 0;
    case K_CUNSUB:
        return D.has_cond && D.nres > 0 && D.sub_res != 0;
    case K_CSUBB:
        return D.has_cond && D.nres > 0 && !D.sub_b;
    case K_CUNSUBB:
        return D.has_cond && D.nres > 0 && D.sub_b;
    case K_EVSCHED:
        return D.envev[0] == 0 || D.envev[1] == 0
               || !cmb_event_is_scheduled(D.envev[0]) || !cmb_event_is_scheduled(D.envev[1]);
    case K_EVCANCEL:
        return q < NENVEV && D.envev[q] != 0 && cmb_event_is_scheduled(D.envev[q]);
    case K_RECON:
        return D.rec_state == 0;
    case K_RECOFF:
        return D.rec_state == 1;
    case K_RESTOP: /* a second stop, recording being off already: changes nothing */
    case K_REREC:  /* recording switched on again after a stop: a second window in the same history */
        return D.rec_state == 2;
    case K_START:
        return q != p && q < D.P && D.inited[q]
               && (D.pstate[q] == PS_ENDED || D.pstate[q] == PS_CREATED);
    default:
        return false;
    }
}

/* ------------------------------------------------------------ fingerprint */

static uint64_t guard_hash(const struct cmb_resourceguard *g)
{
    const struct cmi_hashheap *hp = &g->priority_queue;
    uint64_t acc = 0;
    if (hp->heap) {
        for (uint64_t j = 1; j <= hp->heap_count; j++) {
            uint64_t e = vx_mix((uint64_t)des_pidx(hp->heap[j].item[0]) + 1, (uint64_t)hp->heap[j].isortkey);
            e = vx_mix(e, vx_hash_bytes(1, &hp->heap[j].dsortkey, 8));
            acc += vx_mix(e, (uint64_t)(uintptr_t)hp->heap[j].item[2]);
        }
    }
    return acc;
}

static uint64_t canon_hash(void)
{
    double t = cmb_time();
    uint64_t h = vx_hash_bytes(11, &t, sizeof t);
    for (int p = 0; p < D.P; p++) {
        h = vx_mix(h, (uint64_t)D.pstate[p] * 64 + (uint64_t)D.endroute[p] * 8 + (uint64_t)D.incarnation[p]);
        h = vx_mix(h, (uint64_t)(*D.procp[p]).priority);
        h = vx_mix(h, (uint64_t)D.budget[p] * 256 + (uint64_t)D.step[p]);
        if (D.cur[p].active) {
            h = vx_mix(h, vx_hash_str(5, D.cur[p].od->name));
            h = vx_mix(h, vx_hash_bytes(1, &D.cur[p].t_call, 8));
            h = vx_mix(h, D.cur[p].in * 2 + (uint64_t)(D.nevents != D.cur[p].ev_at_call));
        }
        if (D.inited[p]) {
            uint64_t racc = 0;
            for (const struct cmi_slist_head *r = (*D.procp[p]).resources.next; r; r = r->next) {
                const struct cmi_process_holdable *ph = cmi_container_of(r, struct cmi_process_holdable, listhead);
                racc += vx_mix((uint64_t)((const char *)ph->res - (const char *)&D) + 3, 9);
            }
            h = vx_mix(h, racc);
        }
        h = vx_mix(h, D.pool_held[p] * 16 + (uint64_t)D.ntimers[p]);
        /* awaits list: types and (for timers) nothing else: the events are hashed below */
        uint64_t acc = 0;
        if (D.inited[p]) {
            for (const struct cmi_slist_head *a = (*D.procp[p]).awaits.next; a; a = a->next) {
                const struct cmi_process_awaitable *aw = cmi_container_of(a, struct cmi_process_awaitable, listhead);
                acc += vx_mix(aw->type + 1, 3);
            }
            for (const struct cmi_slist_head *a = (*D.procp[p]).waiters.next; a; a = a->next) {
                const struct cmi_process_waiter *w = cmi_container_of(a, struct cmi_process_waiter, listhead);
                acc += vx_mix((uint64_t)des_pidx(w->proc) + 1, 5);
            }
        }
        h = vx_mix(h, acc);
    }
    for (int r = 0; r < D.nres; r++) {
        h = vx_mix(h, (uint64_t)des_pidx(D.res[r].holder) + 1);
        h = vx_mix(h, guard_hash(&D.res[r].guard));
        for (int p = 0; p < D.P; p++) {
            h = vx_mix(h, D.res_belief[p][r]);
        }
        h = vx_mix(h, D.res[r].is_recording);
    }
    if (D.has_pool) {
        h = vx_mix(h, D.pool.in_use);
        h = vx_mix(h, guard_hash(&D.pool.guard));
        for (int p = 0; p < D.P; p++) {
            h = vx_mix(h, cmb_resourcepool_held_by_process(&D.pool, &(*D.procp[p])));
        }
    }
    if (D.has_buf) {
        h = vx_mix(h, D.buf.level);
        h = vx_mix(h, guard_hash(&D.buf.front_guard));
        h = vx_mix(h, guard_hash(&D.buf.rear_guard));
    }
    if (D.has_oq) {
        h = vx_mix(h, D.oq.length);
        uint64_t k = 1;
        for (void **t = (void **)D.oq.queue_head; t; t = (void **)t[0]) {
            h = vx_mix(h, (uint64_t)(uintptr_t)t[1] * k++);
        }
        h = vx_mix(h, guard_hash(&D.oq.front_guard));
        h = vx_mix(h, guard_hash(&D.oq.rear_guard));
    }
    if (D.has_pq) {
        uint64_t acc = 0;
        for (uint64_t j = 1; j <= D.pq.queue.heap_count; j++) {
            acc += vx_mix((uint64_t)(uintptr_t)D.pq.queue.heap[j].item[0], (uint64_t)D.pq.queue.heap[j].isortkey);
        }
        h = vx_mix(h, acc);
        h = vx_mix(h, guard_hash(&D.pq.front_guard));
        h = vx_mix(h, guard_hash(&D.pq.rear_guard));
    }
    if (D.has_cond) {
        h = vx_mix(h, guard_hash(&D.cond.guard));
    }
    h = vx_mix(h, (uint64_t)D.X);
    /* pending events in the order in which they will run (FIFO among ties matters for the future) */
    const struct cmi_hashheap *eq = cmi_verif_event_queue();
    {
        const struct cmi_heap_tag *ord[128];
        uint64_t ne = eq->heap_count < 128 ? eq->heap_count : 128;
        for (uint64_t j = 0; j < ne; j++) {
            ord[j] = &eq->heap[j + 1];
        }
        for (uint64_t a = 1; a < ne; a++) {
            const struct cmi_heap_tag *t = ord[a];
            uint64_t b = a;
            while (b > 0 && (*eq->heap_compare)(t, ord[b - 1])) {
                ord[b] = ord[b - 1];
                b--;
            }
            ord[b] = t;
        }
        for (uint64_t j = 0; j < ne; j++) {
            const struct cmi_heap_tag *tg = ord[j];
            uint64_t e = vx_hash_bytes(2, &tg->dsortkey, 8);
            e = vx_mix(e, (uint64_t)tg->isortkey);
            e = vx_mix(e, (uint64_t)((uintptr_t)tg->item[0] - (uintptr_t)&cmb_event_schedule)); /* ASLR-independent */
            e = vx_mix(e, (uint64_t)des_pidx(tg->item[1]) + 1);
            e = vx_mix(e, (uint64_t)(uintptr_t)tg->item[2]);
            /* rank of its handle among the pending events: the latent FIFO order decides ties that a
             * later reschedule / reprioritise can create */
            uint64_t rank = 0;
            for (uint64_t q = 0; q < ne; q++) {
                rank += ord[q]->key < tg->key;
            }
            e = vx_mix(e, rank);
            for (const struct cmi_slist_head *w = (const struct cmi_slist_head *)tg->item[3]; w; w = w->next) {
                const struct cmi_process_waiter *pw = cmi_container_of(w, struct cmi_process_waiter, listhead);
                e = vx_mix(e, (uint64_t)des_pidx(pw->proc) + 77);
            }
            h = vx_mix(h, e);
        }
        h = vx_mix(h, eq->heap_count);
    }
    /* the driver's handles: which pending event each of them names (by its rank in time order is enough) */
    for (int p = 0; p < D.P; p++) {
        for (int k = 0; k < D.ntimers[p]; k++) {
            if (cmb_event_is_scheduled(D.timers[p][k])) {
                double tt = cmb_event_time(D.timers[p][k]);
                h = vx_mix(h, vx_hash_bytes((uint64_t)(p * 8 + k), &tt, 8));
            }
        }
        h = vx_mix(h, (uint64_t)D.resume_pending[p] * 2 + (uint64_t)(D.pq_handle[p] != 0)
                          + (uint64_t)D.residue[p].active * 4);
    }
    for (int k = 0; k < NENVEV; k++) {
        h = vx_mix(h, (uint64_t)(D.envev[k] != 0 && cmb_event_is_scheduled(D.envev[k])));
    }
    h = vx_mix(h, (uint64_t)D.rec_state * 8 + (uint64_t)D.sub_res * 2 + (uint64_t)D.sub_b);
    for (int m = 0; m < nmons; m++) {
        if (mons[m]->hash) {
            h = vx_mix(h, mons[m]->hash());
        }
    }
    return h;
}

/* the handle queries agree with the set of events still pending, whether or not processes wait for them */
static void check_event_queries(void)
{
    uint64_t pending = 0;
    for (int k = 0; k < NENVEV; k++) {
        const bool sched = D.envev[k] != 0 && cmb_event_is_scheduled(D.envev[k]);
        pending += sched;
        const uint64_t found = cmb_event_pattern_find(env_action, CMB_ANY_SUBJECT, (void *)(uintptr_t)(k + 1));
        if (found != (sched ? D.envev[k] : 0)) {
            VFAIL("c01:pattern-find-disagrees", "event %" PRIu64 " (object %d) is %s, cmb_event_pattern_find says %" PRIu64,
                  D.envev[k], k + 1, sched ? "scheduled" : "not scheduled", found);
            return;
        }
    }
    const uint64_t counted = cmb_event_pattern_count(env_action, CMB_ANY_SUBJECT, CMB_ANY_OBJECT);
    if (counted != pending) {
        VFAIL("c01:pattern-count-disagrees", "%" PRIu64 " events of that action are scheduled, cmb_event_pattern_count says %" PRIu64,
              pending, counted);
    }
}

static void observe(void)
{
    if (D.abandon) {
        return;
    }
    check_event_queries();
    if (D.abandon) {
        return;
    }
    MON0(observe);
    const uint64_t fp = canon_hash();
    vx_state(fp);
    if (vx_tracing()) {
        vx_trace("      <state %016llx>\n", (unsigned long long)fp);
    }
    if (cfg_prune && !D.abandon && vx_visited(fp)) {
        vx_cut();
        D.abandon = true;
    }
}

/* ------------------------------------------------------------ operations */

static void forget_timer(int p, uint64_t h)
{
    for (int k = 0; k < D.ntimers[p]; k++) {
        if (D.timers[p][k] == h) {
            D.timers[p][k] = D.timers[p][--D.ntimers[p]];
            return;
        }
    }
}

static void note_process_end_bookkeeping(int q)
{
    for (int r = 0; r < NRES; r++) {
        D.res_belief[q][r] = false;
    }
    D.pool_held[q] = 0;
    D.ntimers[q] = 0;
    D.cur[q].active = false;
}

static void *proc_body(struct cmb_process *me, void *ctx);

static int64_t do_op(int p, const struct opdef *od)
{
    struct opcall *c = &D.cur[p];
    memset(c, 0, sizeof *c);
    c->od = od;
    c->p = p;
    c->t_call = cmb_time();
    c->ev_at_call = D.nevents;
    c->seq = ++D.ncalls;
    c->active = true;
    struct cmb_process *me = &(*D.procp[p]);
    const int q = (int)od->a;
    int64_t ret = 0;
    uint64_t amount;
    void *obj;
    uint64_t h;

    /* in-parameters that the monitors want to see before the call */
    switch (od->kind) {
    case K_OQPUT:
    case K_PQPUT:
        c->in = (od->kind == K_OQPUT && od->b == 14) ? 0 /* 'n': NULL object */ : ++D.next_token;
        if (od->b == 4) { /* 'd': duplicate of the previous token */
            c->in = D.next_token = D.next_token - 1;
        }
        break;
    case K_BPUT: case K_BGET: case K_PACQ: case K_PPRE: case K_PREL:
        c->in = op_amount(od);
        break;
    default:
        break;
    }
    vx_trace("  [t=%g] P%d calls %s\n", c->t_call, p, od->name);
    vx_transition();
    MON(on_call, c);
    if (D.abandon) {
        c->active = false;
        return 0;
    }

    switch (od->kind) {
    case K_HOLD:
        ret = cmb_process_hold(des_dur(od));
        break;
    case K_TADD:
        h = cmb_process_timer_add(me, des_dur(od), des_timer_signal(p, od));
        c->out = h;
        if (D.ntimers[p] < MAXTIMERS) {
            D.timers[p][D.ntimers[p]++] = h;
        }
        break;
    case K_TSET:
        h = cmb_process_timer_set(me, des_dur(od), des_timer_signal(p, od));
        c->out = h;
        D.ntimers[p] = 0;
        D.timers[p][D.ntimers[p]++] = h;
        break;
    case K_TCANCEL:
        h = D.timers[p][D.ntimers[p] - 1];
        c->in = h;
        ret = cmb_process_timer_cancel(me, h);
        forget_timer(p, h);
        break;
    case K_TCLEAR:
        cmb_process_timers_clear(me);
        D.ntimers[p] = 0;
        break;
    case K_TADDO:
        /* somebody else arms a timer (two time units, application-defined signal) for a typically suspended process */
        h = cmb_process_timer_add(&(*D.procp[q]), 2.0 * des_tscale, sig_timer(q, 2 + p));
        c->out = h;
        if (D.ntimers[q] < MAXTIMERS) {
            D.timers[q][D.ntimers[q]++] = h;
        }
        break;
    case K_TCLEARO:
        /* somebody else clears the timers of a (typically suspended) process */
        cmb_process_timers_clear(&(*D.procp[q]));
        D.ntimers[q] = 0;
        break;
    case K_YIELD:
        ret = cmb_process_yield();
        D.resume_pending[p] = false;
        break;
    case K_RESUME:
        D.resume_pending[q] = true;
        cmb_process_resume(&(*D.procp[q]), od->b ? sig_resume(p) : 0);
        break;
    case K_WAITP:
        ret = cmb_process_wait_process(&(*D.procp[q]));
        break;
    case K_WAITE:
        c->in = D.envev[q];
        ret = cmb_process_wait_event(D.envev[q]);
        break;
    case K_INT:
        cmb_process_interrupt(&(*D.procp[q]), sig_interrupt(p, (int)od->b), od->b == 8 ? 5 : 0);
        break;
    case K_STOP:
        cmb_process_stop(&(*D.procp[q]), (void *)(uintptr_t)(0x500 + p));
        D.pstate[q] = PS_ENDED;
        D.endroute[q] = ER_STOPPED;
        D.t_end[q] = cmb_time();
        D.endval[q] = (void *)(uintptr_t)(0x500 + p);
        note_process_end_bookkeeping(q);
        break;
    case K_STOPSELF:
        D.pstate[p] = PS_ENDED;
        D.endroute[p] = ER_STOPSELF;
        D.t_end[p] = cmb_time();
        D.endval[p] = (void *)(uintptr_t)(0x600 + p);
        note_process_end_bookkeeping(p);
        cmb_process_stop(me, (void *)(uintptr_t)(0x600 + p));
        /* not reached */
        break;
    case K_EXIT:
        D.pstate[p] = PS_ENDED;
        D.endroute[p] = ER_EXIT;
        D.t_end[p] = cmb_time();
        D.endval[p] = (void *)(uintptr_t)(0x700 + p);
        note_process_end_bookkeeping(p);
        cmb_process_exit((void *)(uintptr_t)(0x700 + p));
        /* not reached */
        break;
    case K_PRIO:
        cmb_process_priority_set(&(*D.procp[q]), od->b);
        break;
    case K_RACQ:
        ret = cmb_resource_acquire(&D.res[q]);
        break;
    case K_RPRE:
        ret = cmb_resource_preempt(&D.res[q]);
        break;
    case K_RREL:
        D.res_belief[p][q] = false;
        cmb_resource_release(&D.res[q]);
        break;
    case K_PACQ:
        ret = cmb_resourcepool_acquire(&D.pool, c->in);
        break;
    case K_PPRE:
        ret = cmb_resourcepool_preempt(&D.pool, c->in);
        break;
    case K_PREL:
        D.pool_held[p] -= c->in;
        cmb_resourcepool_release(&D.pool, c->in);
        break;
    case K_BPUT:
        amount = c->in;
        ret = cmb_buffer_put(&D.buf, &amount);
        c->out = amount;
        break;
    case K_BGET:
        amount = c->in;
        ret = cmb_buffer_get(&D.buf, &amount);
        c->out = amount;
        break;
    case K_OQPUT:
        ret = cmb_objectqueue_put(&D.oq, (void *)(uintptr_t)c->in);
        break;
    case K_OQGET:
        obj = (void *)(uintptr_t)0xdead;
        ret = cmb_objectqueue_get(&D.oq, &obj);
        c->out = (uint64_t)(uintptr_t)obj;
        break;
    case K_PQPUT:
        h = 0;
        ret = cmb_priorityqueue_put(&D.pq, (void *)(uintptr_t)c->in, od->a, &h);
        c->out = h;
        if (ret == CMB_PROCESS_SUCCESS) {
            D.pq_handle[p] = h;
            D.pq_handle_live[p] = true;
        }
        break;
    case K_PQGET:
        obj = (void *)(uintptr_t)0xdead;
        ret = cmb_priorityqueue_get(&D.pq, &obj);
        c->out = (uint64_t)(uintptr_t)obj;
        break;
    case K_PQCANCEL:
        c->in = D.pq_handle[p];
        ret = cmb_priorityqueue_cancel(&D.pq, D.pq_handle[p]);
        D.pq_handle_live[p] = false;
        break;
    case K_PQREPRIO:
        c->in = D.pq_handle[p];
        cmb_priorityqueue_reprioritize(&D.pq, D.pq_handle[p], od->a);
        break;
    case K_CWAIT:
        ret = cmb_condition_wait(&D.cond, pred, (void *)(intptr_t)od->a);
        break;
    case K_CWAITB:
        ret = cmb_condition_wait(&D.cond_b, pred, (void *)(intptr_t)od->a);
        break;
    case K_CSIG:
        ret = cmb_condition_signal(&D.cond);
        break;
    case K_SETX:
        D.X = od->a;
        break;
    case K_CCANCEL:
        if (cmb_condition_cancel == NULL) {
            VFAIL("c13:cancel-undefined", "cmb_condition_cancel is declared in cmb_condition.h but not defined by the library");
            break;
        }
        ret = cmb_condition_cancel(&D.cond, &(*D.procp[q]));
        break;
    case K_CREMOVE:
        if (cmb_condition_remove == NULL) {
            VFAIL("c13:remove-undefined", "cmb_condition_remove is declared in cmb_condition.h but not defined by the library");
            break;
        }
        ret = cmb_condition_remove(&D.cond, &(*D.procp[q]));
        break;
    case K_CREMOVEB:
    case K_CCANCELB:
        /* the second condition, at which nobody ever waits: there is nothing to take out, and nothing else may change */
        ret = od->kind == K_CREMOVEB ? cmb_condition_remove(&D.cond_b, &(*D.procp[q]))
                                     : cmb_condition_cancel(&D.cond_b, &(*D.procp[q]));
        if (ret != 0) {
            VFAIL("c13:found-at-a-condition-nobody-waits-at", "%s of P%d at the second condition, where nobody waits, returned true",
                  od->name, q);
        }
        break;
    case K_CSUB:
        cmb_condition_subscribe(&D.cond, &D.res[0].guard);
        D.sub_res = 2;
        D.sub_static = false;
        break;
    case K_CSUBB:
        cmb_condition_subscribe(&D.cond_b, &D.res[0].guard);
        D.sub_b = true;
        break;
    case K_CUNSUBB:
        ret = cmb_condition_unsubscribe(&D.cond_b, &D.res[0].guard);
        if (!ret) {
            VFAIL("c13:unsubscribe-return-value", "unsubscribing the second condition from the guard it observes returned false");
        }
        D.sub_b = false;
        break;
    case K_CUNSUB:
        ret = cmb_condition_unsubscribe(&D.cond, &D.res[0].guard);
        if (!ret) {
            VFAIL("c13:unsubscribe-return-value", "unsubscribing the condition from the guard it observes returned false");
        }
        D.sub_res = 0;
        break;
    case K_EVSCHED: {
        const int k = (D.envev[0] == 0 || !cmb_event_is_scheduled(D.envev[0])) ? 0 : 1;
        D.envev[k] = cmb_event_schedule(env_action, NULL, (void *)(uintptr_t)(k + 1),
                                        cmb_time() + des_dur(od), od->b);
        c->out = D.envev[k];
        c->in = (uint64_t)k;
        break;
    }
    case K_EVCANCEL:
        c->in = D.envev[q];
        if (od->b == 16) {
            /* 'p': the same cancellation asked for by pattern (the event's action and object name it uniquely) */
            const uint64_t cnt = cmb_event_pattern_cancel(env_action, CMB_ANY_SUBJECT, (void *)(uintptr_t)(q + 1));
            if (cnt != 1) {
                VFAIL("c01:pattern-cancel-count", "pattern cancel of the one pending event with object %d cancelled %" PRIu64, q + 1, cnt);
            }
            ret = (cnt == 1);
        }
        else {
            ret = cmb_event_cancel(D.envev[q]);
        }
        break;
    case K_RECON:
    case K_REREC:
    case K_RESTOP:
    case K_RECOFF: {
        const bool on = od->kind == K_RECON || od->kind == K_REREC;
        D.rec_state = on ? 1 : 2;
        for (int r = 0; r < D.nres; r++) {
            if (on) cmb_resource_start_recording(&D.res[r]); else cmb_resource_stop_recording(&D.res[r]);
        }
        if (D.has_pool) {
            if (on) cmb_resourcepool_start_recording(&D.pool); else cmb_resourcepool_stop_recording(&D.pool);
        }
        if (D.has_buf) {
            if (on) cmb_buffer_recording_start(&D.buf); else cmb_buffer_recording_stop(&D.buf);
        }
        if (D.has_oq) {
            if (on) cmb_objectqueue_recording_start(&D.oq); else cmb_objectqueue_recording_stop(&D.oq);
        }
        if (D.has_pq) {
            if (on) cmb_priorityqueue_recording_start(&D.pq); else cmb_priorityqueue_recording_stop(&D.pq);
        }
        break;
    }
    case K_START:
        D.pstate[q] = PS_STARTPENDING;
        D.endroute[q] = ER_NONE;
        cmb_process_start(&(*D.procp[q]));
        break;
    default:
        break;
    }

    /* back in process p (possibly much later) */
    D.running = p;
    D.last_ran = p;
    c->ret = ret;
    c->t_ret = cmb_time();
    c->blocked = (D.nevents != c->ev_at_call);
    c->active = false;

    /* driver bookkeeping of the valid-program model (who holds what) */
    switch (od->kind) {
    case K_RACQ:
    case K_RPRE:
        if (ret == CMB_PROCESS_SUCCESS) {
            D.res_belief[p][q] = true;
        }
        break;
    case K_PACQ:
    case K_PPRE:
        if (ret == CMB_PROCESS_SUCCESS) {
            D.pool_held[p] += c->in;
        }
        else if (ret == CMB_PROCESS_PREEMPTED) {
            D.pool_held[p] = 0;
        }
        break;
    default:
        break;
    }
    if (ret == CMB_PROCESS_PREEMPTED) {
        /* what exactly was lost is for the monitors to judge; for validity the
         * driver asks the library which of its holdings survive */
        /* told PREEMPTED: a real program would now ask the library what it still holds */
        for (int r = 0; r < D.nres; r++) {
            if (D.res_belief[p][r] && !cmb_resource_held_by_process(&D.res[r], me)) {
                D.res_belief[p][r] = false;
            }
        }
        if (D.has_pool) {
            D.pool_held[p] = cmb_resourcepool_held_by_process(&D.pool, me);
        }
    }
    if (od->kind == K_HOLD || od->kind == K_YIELD || od->kind == K_WAITP || od->kind == K_WAITE
        || od->kind == K_RACQ || od->kind == K_RPRE || od->kind == K_PACQ || od->kind == K_PPRE
        || od->kind == K_BPUT || od->kind == K_BGET || od->kind == K_OQPUT || od->kind == K_OQGET
        || od->kind == K_PQPUT || od->kind == K_PQGET || od->kind == K_CWAIT || od->kind == K_CWAITB) {
        /* timers that fired or were wiped by an interrupt are no longer cancellable by handle:
         * keep only those still scheduled */
        int w = 0;
        for (int k = 0; k < D.ntimers[p]; k++) {
            if (cmb_event_is_scheduled(D.timers[p][k])) {
                D.timers[p][w++] = D.timers[p][k];
            }
        }
        D.ntimers[p] = w;
    }
    vx_trace("  [t=%g] P%d %s returns %s out=%" PRIu64 "%s\n", c->t_ret, p, od->name, des_signame(ret),
             c->out, c->blocked ? " (blocked)" : "");
    vx_outcome(vx_mix(vx_mix((uint64_t)p * 131 + (uint64_t)od->kind, (uint64_t)ret), c->out));
    vx_outcome(vx_hash_bytes(9, &c->t_ret, 8));
    MON(on_return, c);
    observe();
    return ret;
}

/*
 * Semantic confirmation of a residue: the process does nothing but wait in a sentinel call that nothing
 * legitimate should end before t+1000 (except notifications the monitor knows about, after which the
 * sentinel is re-issued). The kinds of sentinel are enumerated (free choice): a long hold, a bare yield
 * and a wait on a condition whose predicate is never true (both behind a long timer). If the residue can
 * resume the process, the monitor's ordinary rules about unjustified returns report it.
 */
static void confirm_residue(int p)
{
    static const struct opdef od_hold = { "hold1000", K_HOLD, 1000, 0 };
    static const struct opdef od_tadd = { "tadd1000", K_TADD, 1000, 0 };
    static const struct opdef od_yield = { "yield", K_YIELD, 0, 0 };
    static const struct opdef od_cwait = { "cwait9", K_CWAIT, 9, 0 };
    const int ns = D.has_cond ? 3 : 2;
    const int s = vx_choose_free(ns, "sentinel");
    const double horizon = cmb_time() + 1000.0;
    for (int round = 0; round < 6 && !D.abandon && cmb_time() < horizon; round++) {
        if (s == 0) {
            if (do_op(p, &od_hold) == CMB_PROCESS_SUCCESS) {
                break;
            }
        }
        else {
            if (round == 0) {
                (void)do_op(p, &od_tadd);
            }
            (void)do_op(p, s == 1 ? &od_yield : &od_cwait);
        }
    }
    if (!D.abandon && D.residue[p].confirmed == 0) {
        D.inert_residues++;
        vx_counter(1, 1);
        vx_trace("  [t=%g] residue of P%d was inert: its sentinel waits ended undisturbed\n", cmb_time(), p);
    }
}

static void *proc_body(struct cmb_process *me, void *ctx)
{
    const int p = (int)(intptr_t)ctx;
    D.running = p;
    D.last_ran = p;
    D.pstate[p] = PS_ACTIVE;
    D.endroute[p] = ER_NONE;
    D.incarnation[p]++;
    D.step[p] = 0;
    vx_trace("  [t=%g] P%d body entered (incarnation %d)\n", cmb_time(), p, D.incarnation[p]);
    if (me != &(*D.procp[p])) {
        VFAIL("driver:body-handle", "process function of P%d received a wrong handle", p);
    }
    MON(on_body_enter, p);
    while (D.budget[p] > 0 && !D.abandon) {
        if (D.residue[p].active) {
            confirm_residue(p);
            break;
        }
        const struct opdef *menu[MAXMENU + 1];
        int nm = 0;
        const struct opdef *first = NULL;
        if (cfg_cycle && script_n[p] > 0) {
            /* long deterministic runs (container growth thresholds): the script repeats, nothing is chosen */
            const struct opdef *od = &script_ops[p][D.step[p] % script_n[p]];
            if (!enabled(p, od)) {
                break;
            }
            D.budget[p]--;
            D.step[p]++;
            (void)do_op(p, od);
            continue;
        }
        if (D.incarnation[p] == 1 && D.step[p] < script_n[p] && enabled(p, &script_ops[p][D.step[p]])) {
            first = &script_ops[p][D.step[p]];
            menu[nm++] = first;
        }
        for (int k = 0; k < menu_n[p]; k++) {
            const struct opdef *od = &menu_ops[p][k];
            if (first && !strcmp(first->name, od->name)) {
                continue;
            }
            if (enabled(p, od)) {
                menu[nm++] = od;
            }
        }
        if (nm == 0) {
            break;
        }
        char label[16];
        snprintf(label, sizeof label, "P%d", p);
        const int k = vx_choose(nm, label);
        const struct opdef *od = menu[k];
        D.budget[p]--;
        D.step[p]++;
        if (od->kind == K_RETURN) {
            break;
        }
        (void)do_op(p, od);
    }
    /* return from the process function */
    static const struct opdef od_return = { "return", K_RETURN, 0, 0 };
    struct opcall *c = &D.cur[p];
    memset(c, 0, sizeof *c);
    c->od = &od_return;
    c->p = p;
    c->t_call = cmb_time();
    c->seq = ++D.ncalls;
    vx_trace("  [t=%g] P%d returns from its function\n", cmb_time(), p);
    if (!D.abandon) {
        MON(on_call, c);
    }
    D.pstate[p] = PS_ENDED;
    D.endroute[p] = ER_RETURN;
    D.t_end[p] = cmb_time();
    D.endval[p] = (void *)(uintptr_t)(0x100 + p);
    note_process_end_bookkeeping(p);
    return (void *)(uintptr_t)(0x100 + p);
}

/* ------------------------------------------------------------ one execution */

static void reset_pools(void)
{
    cmi_mempool_cleanup(NULL);
    for (int k = 0; k < 5; k++) {
        *POOLS[k] = pool_image[k];
    }
}

/* Every execution gives its objects a short first life (each is used and left non-empty: a resource and pool
 * units held by a process that ends, a unit in the buffer, an object in each queue), terminates them and the
 * event queue, and initializes the same objects again for the execution proper - what a program does that
 * reuses its objects for the next trial. Right after that every object must look empty through its public
 * queries. (Deterministic: the first life is the same in every execution.) */
static bool reused;
static struct cmb_process warm_proc;

static void *warm_body(struct cmb_process *me, void *ctx)
{
    (void)me;
    (void)ctx;
    uint64_t am = 1, h = 0;
    if (D.nres > 0) {
        cmb_resource_acquire(&D.res[0]);
    }
    if (D.has_pool) {
        cmb_resourcepool_acquire(&D.pool, 1);
    }
    if (D.has_buf) {
        cmb_buffer_put(&D.buf, &am);
    }
    if (D.has_oq) {
        cmb_objectqueue_put(&D.oq, (void *)0x31);
    }
    if (D.has_pq) {
        cmb_priorityqueue_put(&D.pq, (void *)0x32, 1, &h);
    }
    cmb_process_hold(1.0);
    return NULL;
}

static void terminate_objects(bool raw);

static void check_fresh_objects(void)
{
    for (int r = 0; r < D.nres; r++) {
        if (cmb_resource_in_use(&D.res[r]) != 0 || cmb_resource_available(&D.res[r]) != 1
            || des_guard_count(&D.res[r].guard) != 0) {
            VFAIL("reinitialize:resource-not-free", "a re-initialized resource reports in use %" PRIu64 ", available %" PRIu64,
                  (uint64_t)cmb_resource_in_use(&D.res[r]), (uint64_t)cmb_resource_available(&D.res[r]));
            return;
        }
    }
    if (D.has_pool && (cmb_resourcepool_in_use(&D.pool) != 0 || cmb_resourcepool_available(&D.pool) != D.pool_cap
                       || des_guard_count(&D.pool.guard) != 0)) {
        VFAIL("reinitialize:pool-not-empty", "a re-initialized pool of %" PRIu64 " reports in use %" PRIu64 ", available %" PRIu64,
              D.pool_cap, cmb_resourcepool_in_use(&D.pool), cmb_resourcepool_available(&D.pool));
        return;
    }
    if (D.has_buf && (cmb_buffer_level(&D.buf) != 0 || cmb_buffer_space(&D.buf) != D.buf_cap
                      || des_guard_count(&D.buf.front_guard) != 0 || des_guard_count(&D.buf.rear_guard) != 0)) {
        VFAIL("reinitialize:buffer-not-empty", "a re-initialized buffer of capacity %" PRIu64 " reports level %" PRIu64
              ", space %" PRIu64, D.buf_cap, cmb_buffer_level(&D.buf), cmb_buffer_space(&D.buf));
        return;
    }
    if (D.has_oq && (cmb_objectqueue_length(&D.oq) != 0 || des_guard_count(&D.oq.front_guard) != 0
                     || des_guard_count(&D.oq.rear_guard) != 0)) {
        VFAIL("reinitialize:objectqueue-not-empty", "a re-initialized object queue reports length %" PRIu64,
              cmb_objectqueue_length(&D.oq));
        return;
    }
    if (D.has_pq && (cmb_priorityqueue_length(&D.pq) != 0 || des_guard_count(&D.pq.front_guard) != 0
                     || des_guard_count(&D.pq.rear_guard) != 0)) {
        VFAIL("reinitialize:priorityqueue-not-empty", "a re-initialized priority queue reports length %" PRIu64,
              cmb_priorityqueue_length(&D.pq));
        return;
    }
    if (D.has_cond && des_guard_count(&D.cond.guard) != 0) {
        VFAIL("reinitialize:condition-not-empty", "a re-initialized condition has waiters");
        return;
    }
}

static void run_one(void)
{
    const int P = D.P;
    /* keep configuration, reset dynamic state */
    for (int p = 0; p < MAXP; p++) {
        D.inited[p] = false;
        D.pstate[p] = PS_CREATED;
        D.endroute[p] = ER_NONE;
        D.incarnation[p] = 0;
        D.budget[p] = cfg_budget[p];
        D.step[p] = 0;
        D.cur[p].active = false;
        D.cur[p].od = NULL;
        D.pool_held[p] = 0;
        D.ntimers[p] = 0;
        D.pq_handle[p] = 0;
        D.pq_handle_live[p] = false;
        D.t_end[p] = 0;
        D.resume_pending[p] = false;
    }
    D.running = -1;
    D.last_ran = -1;
    D.nevents = 0;
    D.ncalls = 0;
    D.abandon = false;
    D.X = cfg_x0;
    D.next_token = 0x40;
    D.envev[0] = D.envev[1] = 0;
    D.rec_state = 0;
    memset(D.res_belief, 0, sizeof D.res_belief);
    memset(D.residue, 0, sizeof D.residue);
    D.inert_residues = 0;

    cmb_event_queue_initialize(des_t0);
    for (int r = 0; r < D.nres; r++) {
        if (!reused) { memset(&D.res[r], 0, sizeof D.res[r]); }
        cmb_resource_initialize(&D.res[r], r ? "R1" : "R0");
    }
    if (D.has_pool) {
        if (!reused) { memset(&D.pool, 0, sizeof D.pool); }
        cmb_resourcepool_initialize(&D.pool, "POOL", D.pool_cap);
    }
    if (D.has_buf) {
        if (!reused) { memset(&D.buf, 0, sizeof D.buf); }
        cmb_buffer_initialize(&D.buf, "BUF", D.buf_cap);
    }
    if (D.has_oq) {
        if (!reused) { memset(&D.oq, 0, sizeof D.oq); }
        cmb_objectqueue_initialize(&D.oq, "OQ", D.oq_cap);
    }
    if (D.has_pq) {
        if (!reused) { memset(&D.pq, 0, sizeof D.pq); }
        cmb_priorityqueue_initialize(&D.pq, "PQ", D.pq_cap);
    }
    if (D.has_cond) {
        if (!reused) { memset(&D.cond, 0, sizeof D.cond); memset(&D.cond_b, 0, sizeof D.cond_b); }
        cmb_condition_initialize(&D.cond, "COND");
        cmb_condition_initialize(&D.cond_b, "CONDB");
        D.sub_b = false;
        const char *sub = vx_opt("subscribe", "");
        D.sub_res = 0;
        D.sub_pool = false;
        if (strstr(sub, "res") && D.nres > 0) {
            cmb_resourceguard_register(&D.res[0].guard, &D.cond.guard);
            D.sub_res = 1;
        }
        if (strstr(sub, "pool") && D.has_pool) {
            cmb_resourceguard_register(&D.pool.guard, &D.cond.guard);
            D.sub_pool = true;
        }
        if (strstr(sub, "csub") && D.nres > 0) {
            cmb_condition_subscribe(&D.cond, &D.res[0].guard);
            D.sub_res = 2;
        }
        if (strstr(sub, "chain")) {
            /* a relay: the second condition observes the first one's guard (which observes resource 0 or the pool) */
            cmb_condition_subscribe(&D.cond_b, &D.cond.guard);
        }
        if (strstr(sub, "buf") && D.has_buf) {
            /* the condition hears of every put (front guard) and every get (rear guard) of the buffer */
            cmb_condition_subscribe(&D.cond, &D.buf.front_guard);
            cmb_condition_subscribe(&D.cond, &D.buf.rear_guard);
        }
        D.sub_static = sub[0] != 0;
    }
    if (!reused && vx_opt_int("reuse", 1)) {
        /* first life */
        memset(&warm_proc, 0, sizeof warm_proc);
        /* the first life ends while its recording is still switched on: the second one starts without */
        for (int r = 0; r < D.nres; r++) {
            cmb_resource_start_recording(&D.res[r]);
        }
        if (D.has_pool) {
            cmb_resourcepool_start_recording(&D.pool);
        }
        if (D.has_buf) {
            cmb_buffer_recording_start(&D.buf);
        }
        if (D.has_oq) {
            cmb_objectqueue_recording_start(&D.oq);
        }
        if (D.has_pq) {
            cmb_priorityqueue_recording_start(&D.pq);
        }
        cmb_process_initialize(&warm_proc, "W", warm_body, NULL, 0);
        cmb_process_start(&warm_proc);
        if (!strcmp(vx_opt("life1", "cut"), "done")) {
            /* the first life runs to its end: the process returns, what it held goes back */
            while (cmb_event_execute_next()) {
            }
            cmb_process_terminate(&warm_proc);
            terminate_objects(false);
        }
        else {
            /* the first life is cut off in the middle (a run stopped at its end time): the process is suspended holding
             * the resource and pool units, the buffer and the queues are not empty, everything is still recording */
            const struct cmi_hashheap *q1 = cmi_verif_event_queue();
            while (q1->heap_count > 0 && q1->heap[1].dsortkey < des_t0 + 0.5 && cmb_event_execute_next()) {
            }
            cmb_event_queue_clear();
            terminate_objects(false);
            free(warm_proc.core.stack);
            warm_proc.core.stack = NULL;
        }
        cmb_event_queue_terminate();
        reused = true;
        run_one();
        reused = false;
        return;
    }
    if (reused) {
        check_fresh_objects();
    }
    for (int p = 0; p < P; p++) {
        char nm[8];
        snprintf(nm, sizeof nm, "P%d", p);
        memset(&(*D.procp[p]), 0, sizeof (*D.procp[p]));
        cmb_process_initialize(&(*D.procp[p]), nm, proc_body, (void *)(intptr_t)p, D.prio0[p]);
        D.inited[p] = true;
    }
    for (int k = 0; k < cfg_preload; k++) {
        cmb_event_schedule(preload_action, NULL, NULL, 1000.0 + k, 0);
    }
    MON0(init);
    const int nstart = cfg_chain ? 1 : P;
    const int autostart = (int)vx_opt_int("autostart", P);
    for (int p = 0; p < nstart && p < autostart; p++) {
        D.pstate[p] = PS_STARTPENDING;
        cmb_process_start(&(*D.procp[p]));
    }
    observe();

    bool capped = false;
    while (!D.abandon) {
        {
            /* the process (if any) that the next event is going to run */
            const struct cmi_hashheap *q0 = cmi_verif_event_queue();
            if (q0->heap_count > 0) {
                const int sp = des_pidx(q0->heap[1].item[1]);
                if (sp >= 0) {
                    D.last_ran = sp;
                }
            }
        }
        const double clock_before = cmb_time();
        if (!cmb_event_execute_next()) {
            break;
        }
        D.running = -1;
        D.nevents++;
        vx_transition();
        if (cmb_time() < clock_before) {
            /* whatever else is being checked: the dispatcher never takes the clock back */
            VFAIL("c01:clock-went-backwards", "the event executed after t=%.17g ran at t=%.17g", clock_before, cmb_time());
            break;
        }
        if (D.abandon) {
            break;
        }
        MON0(on_event);
        observe();
        if (D.abandon) {
            break;
        }
        const struct cmi_hashheap *eq = cmi_verif_event_queue();
        if (eq->heap_count == 0 || eq->heap[1].dsortkey > cmb_time()) {
            MON(on_boundary, eq->heap_count == 0);
        }
        if (D.nevents >= cfg_maxevents) {
            capped = true;
            break;
        }
    }
    if (capped) {
        vx_violation("driver:event-cap", "execution exceeded %" PRIu64 " events (livelock?)", cfg_maxevents);
    }
    if (!D.abandon && !capped) {
        MON0(finish);
    }
    vx_outcome(D.nevents);

    /* tear down without running any library clean-up code on abandoned processes */
    for (int p = 0; p < P; p++) {
        if ((*D.procp[p]).core.stack != NULL) {
            free((*D.procp[p]).core.stack);
            (*D.procp[p]).core.stack = NULL;
        }
    }
    terminate_objects(true);
    cmb_event_queue_terminate();
    reset_pools();
}

/* raw: the execution may have been abandoned half-way; fields are cleared by hand so that no library clean-up
 * code runs on processes that no longer exist. Not raw (end of the first life): the library's own terminate. */
static void terminate_objects(bool raw)
{
    for (int r = 0; r < D.nres; r++) {
        if (raw) {
            D.res[r].holder = NULL;
        }
        cmb_resource_terminate(&D.res[r]);
    }
    if (D.has_pool) {
        cmb_resourcepool_terminate(&D.pool);
    }
    if (D.has_buf) {
        cmb_buffer_terminate(&D.buf);
    }
    if (D.has_oq) {
        if (raw) {
            D.oq.queue_head = NULL; /* tags go back with the pool reset */
        }
        cmb_objectqueue_terminate(&D.oq);
    }
    if (D.has_pq) {
        cmb_priorityqueue_terminate(&D.pq);
    }
    if (D.has_cond) {
        cmb_condition_terminate(&D.cond);
        cmb_condition_terminate(&D.cond_b);
    }
}

static void ginit(void)
{
    cmb_logger_flags_off(0x7FFFFFFFu);
    configure();
    POOLS[0] = &cmi_process_awaitabletags;
    POOLS[1] = &cmi_process_holdabletags;
    POOLS[2] = &cmi_process_waitertags;
    POOLS[3] = &observer_tagpool;
    POOLS[4] = &objectqueue_tags;
    for (int k = 0; k < 5; k++) {
        pool_image[k] = *POOLS[k];
    }
}

#include "mon_mutex.inc"
#include "mon_progress.inc"
#include "mon_notif.inc"
#include "mon_order.inc"
#include "mon_pool.inc"
#include "mon_endoflife.inc"
#include "mon_buffer.inc"
#include "mon_queue.inc"
#include "mon_condition.inc"
#include "mon_history.inc"

/* monitor that observes nothing: the oracle is "the process did not die" (C10) */
const struct monitor mon_none = { .name = "none" };

int main(int argc, char **argv)
{
    struct vx_harness h = { "des", run_one, NULL, ginit };
    return vx_main(argc, argv, &h);
}
