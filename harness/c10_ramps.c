/*
 * C10 - threshold ramps: container populations on both sides of every growth
 * point, crossed with the operation that makes the container grow while the
 * library holds a pointer into it. The oracle is AddressSanitizer/UBSan plus
 * "the library did not abort" (every fatal run is a violation), plus a light
 * sanity check of the outcome so that the ramp is known to have done its work.
 *
 * option: mode=evwait|guardq|holders|timers|oqueue|observers|procwait|closing
 */
#include <inttypes.h>
#include <stdio.h>
#include <stdlib.h>
#include <string.h>

#include "vx_explore.h"

#include "cmb_buffer.h"
#include "cmb_condition.h"
#include "cmb_dataset.h"
#include "cmb_datasummary.h"
#include "cmb_event.h"
#include "cmb_logger.h"
#include "cmb_priorityqueue.h"
#include "cmb_timeseries.h"
#include "cmb_wtdsummary.h"
#include "cmb_objectqueue.h"
#include "cmb_process.h"
#include "cmb_resource.h"
#include "cmb_resourceguard.h"
#include "cmb_resourcepool.h"
#include "cmi_mempool.h"
#include "cmi_process.h"

extern CMB_THREAD_LOCAL struct cmi_mempool observer_tagpool;
extern CMB_THREAD_LOCAL struct cmi_mempool objectqueue_tags;
extern void cmi_mempool_cleanup(void *arg);
extern struct cmi_hashheap *cmi_verif_event_queue(void);

static struct cmi_mempool *POOLS[5];
static struct cmi_mempool pool_image[5];

#define NP 20
static struct cmb_process procs[NP];
static int64_t retsig[NP];
static double rettime[NP];
static int nprocs, chain_next;
static uint64_t the_event;
static struct cmb_resource res;
static struct cmb_resourcepool pool;
static struct cmb_objectqueue oq;
static int op, victim;
static const char *mode;

static const char *propid = "c10"; /* --opt prop=c06: the same ramp registered under another property (order oracle) */
#define FAIL(rule, ...) do { char s_[120]; snprintf(s_, sizeof s_, "%s:%s:%s", propid, mode, rule); vx_violation(s_, __VA_ARGS__); } while (0)

static void dummy(void *s, void *o)
{
    (void)s;
    (void)o;
}

static void start_next(void)
{
    if (chain_next < nprocs) {
        cmb_process_start(&procs[chain_next++]);
    }
}

/* ---- evwait: k processes wait for one event, queue population c when it fires */
static void *waiter_body(struct cmb_process *me, void *ctx)
{
    const int id = (int)(intptr_t)ctx;
    (void)me;
    start_next();
    retsig[id] = cmb_process_wait_event(the_event);
    rettime[id] = cmb_time();
    return NULL;
}

static void canceller(void *s, void *o)
{
    (void)s;
    (void)o;
    cmb_event_cancel(the_event);
}

static void run_evwait(void)
{
    const int k = vx_choose_free(11, "k");
    static const int CS[] = { 6, 7, 8, 9, 14, 15, 16, 17, 30, 31, 32, 33 };
    const int c = CS[vx_choose_free(12, "c")];
    const int how = vx_choose_free(2, "how");
    nprocs = k;
    chain_next = 0;
    the_event = cmb_event_schedule(dummy, NULL, NULL, 5.0, 0);
    for (int i = 0; i < k; i++) {
        retsig[i] = 777;
        cmb_process_initialize(&procs[i], "w", waiter_body, (void *)(intptr_t)i, i % 3);
    }
    start_next();
    while (cmb_event_queue_count() > 1 && cmb_time() < 1.0 && cmb_event_execute_next()) {
        if (cmi_verif_event_queue()->heap[1].dsortkey >= 5.0) {
            break;
        }
    }
    /* all k are registered; now bring the population to exactly c (the awaited event included) */
    if (how == 1) {
        cmb_event_schedule(canceller, NULL, NULL, 4.0, 0);
    }
    while ((int)cmb_event_queue_count() < c) {
        cmb_event_schedule(dummy, NULL, NULL, 100.0, 0);
    }
    vx_trace("evwait k=%d c=%d how=%d population=%" PRIu64 " heap_size=%" PRIu64 "\n", k, c, how,
             cmb_event_queue_count(), cmi_verif_event_queue()->heap_size);
    while (cmb_event_execute_next()) {
        vx_transition();
    }
    for (int i = 0; i < k; i++) {
        const int64_t want = how ? CMB_PROCESS_CANCELLED : CMB_PROCESS_SUCCESS;
        if (retsig[i] != want || rettime[i] != (how ? 4.0 : 5.0)) {
            FAIL("waiter-outcome", "k=%d c=%d: waiter %d returned %" PRIi64 " at t=%g", k, c, i, retsig[i], rettime[i]);
            break;
        }
    }
    vx_outcome((uint64_t)k * 100 + (uint64_t)c + (uint64_t)how * 7);
    vx_state((uint64_t)k * 1000 + (uint64_t)c * 2 + (uint64_t)how);
}

/* ---- guardq: n waiters on one resource, then an operation on one of them */
static void *holder_body(struct cmb_process *me, void *ctx)
{
    (void)me;
    (void)ctx;
    start_next();
    cmb_resource_acquire(&res);
    cmb_process_hold(10.0);
    cmb_resource_release(&res);
    return NULL;
}

static void *queuer_body(struct cmb_process *me, void *ctx)
{
    const int id = (int)(intptr_t)ctx;
    start_next();
    /* waiters arrive one after the other, so that every one has its own waiting time (and the order by
     * arrival is the order of the indices) */
    cmb_process_hold(0.01 * id);
    if (op == 4 && id == victim) {
        cmb_process_timer_add(me, 3.0, CMB_PROCESS_TIMEOUT);
    }
    retsig[id] = cmb_resource_acquire(&res);
    rettime[id] = cmb_time();
    if (retsig[id] == CMB_PROCESS_SUCCESS) {
        cmb_process_hold(1.0);
        cmb_resource_release(&res);
    }
    return NULL;
}

static void meddle(void *s, void *o)
{
    (void)s;
    (void)o;
    struct cmb_process *v = &procs[victim];
    switch (op) {
    case 1: cmb_process_interrupt(v, 4242, 0); break;
    case 2: cmb_process_stop(v, NULL); break;
    case 3: cmb_process_priority_set(v, 9); break;
    case 5: cmb_resourceguard_cancel(&res.guard, v); break;
    default: break;
    }
}

static void run_guardq(void)
{
    static const int NS[] = { 7, 8, 9, 15, 16, 17 };
    const int n = NS[vx_choose_free(6, "n")];
    op = vx_choose_free(6, "op");
    const int which = vx_choose_free(3, "which");
    nprocs = n + 1;
    chain_next = 0;
    victim = which == 0 ? 1 : which == 1 ? n : 1 + n / 2;
    cmb_resource_initialize(&res, "R");
    cmb_process_initialize(&procs[0], "h", holder_body, NULL, 5);
    for (int i = 1; i <= n; i++) {
        retsig[i] = 777;
        cmb_process_initialize(&procs[i], "q", queuer_body, (void *)(intptr_t)i, i % 3);
    }
    start_next();
    if (op != 0 && op != 4) {
        cmb_event_schedule(meddle, NULL, NULL, 2.0, 0);
    }
    int guard = 0;
    while (cmb_event_execute_next() && guard++ < 5000) {
        vx_transition();
    }
    int served = 0;
    for (int i = 1; i <= n; i++) {
        served += retsig[i] == CMB_PROCESS_SUCCESS;
    }
    const int expect = n - ((op == 1 || op == 2 || op == 4 || op == 5) ? 1 : 0);
    if (served != expect) {
        FAIL("served-count", "n=%d op=%d victim=%d: %d waiters were served, expected %d", n, op, victim, served, expect);
    }
    /* service order with 7-17 waiters (the waiting list has grown once or twice): higher priority first, equal
     * priorities in the order of arrival (= index); a priority raised to 9 at t=2 goes to the front */
    for (int i = 1; i <= n && served == expect; i++) {
        for (int j = 1; j <= n; j++) {
            if (i == j || retsig[i] != CMB_PROCESS_SUCCESS || retsig[j] != CMB_PROCESS_SUCCESS) {
                continue;
            }
            const int pi = (op == 3 && i == victim) ? 9 : i % 3, pj = (op == 3 && j == victim) ? 9 : j % 3;
            if ((pi > pj || (pi == pj && i < j)) && !(rettime[i] < rettime[j])) {
                FAIL("service-order", "n=%d op=%d victim=%d: waiter %d (priority %d) was served at t=%g, waiter %d (priority %d, "
                     "%s) at t=%g", n, op, victim, i, pi, rettime[i], j, pj, pi > pj ? "lower" : "arrived later", rettime[j]);
                i = n + 1;
                break;
            }
        }
    }
    vx_outcome((uint64_t)n * 100 + (uint64_t)op * 10 + (uint64_t)which);
    vx_state((uint64_t)n * 100 + (uint64_t)op * 10 + (uint64_t)which);
    res.holder = NULL;
    cmb_resource_terminate(&res);
}

/*
 * "guardorder" (registered under C06): every assignment of priorities {0,1,2} to n waiters that arrive one after
 * the other (at distinct times, or with together=1 all in the same instant), every choice of one waiter that leaves from inside the list (cancelled by a third party or timing
 * out), every pair of priorities for two late arrivals; then the holder releases and everybody is served in
 * turn. The order of service is compared with the model: higher priority first, equal priorities by arrival.
 */
static int go_prio[NP], go_order[NP], go_nserved;

static void *go_body(struct cmb_process *me, void *ctx)
{
    const int id = (int)(intptr_t)ctx;
    if (op == 1 && id == victim) {
        cmb_process_timer_add(me, 3.0, CMB_PROCESS_TIMEOUT);
    }
    retsig[id] = cmb_resource_acquire(&res);
    rettime[id] = cmb_time();
    if (retsig[id] == CMB_PROCESS_SUCCESS) {
        go_order[go_nserved++] = id;
        cmb_process_hold(1.0);
        cmb_resource_release(&res);
    }
    return NULL;
}

static void go_start(void *s, void *o)
{
    (void)o;
    cmb_process_start(s);
}

static void go_cancel(void *s, void *o)
{
    (void)o;
    cmb_resourceguard_cancel(&res.guard, s);
}

static void run_guardorder(void)
{
    const int n = (int)vx_opt_int("n", 6);
    const int late = 2;
    for (int i = 1; i <= n + late; i++) {
        go_prio[i] = vx_choose_free(3, "priority");
    }
    victim = 1 + vx_choose_free(n, "leaver");
    op = vx_choose_free(2, "leaves-by"); /* 0 cancelled, 1 times out */
    go_nserved = 0;
    nprocs = n + late + 1;
    cmb_resource_initialize(&res, "R");
    cmb_process_initialize(&procs[0], "h", holder_body, NULL, 5);
    chain_next = nprocs; /* holder_body's start_next() must not start anybody */
    cmb_process_start(&procs[0]);
    for (int i = 1; i <= n + late; i++) {
        retsig[i] = 777;
        cmb_process_initialize(&procs[i], "q", go_body, (void *)(intptr_t)i, go_prio[i]);
        /* arrivals at distinct times; the late ones after the leaver has left (t=2 or t=3), before the release at t=10 */
        /* together=1: the first n arrive in one instant, the late ones in another (order of arrival = order of the start
         * events, which is first in first out) */
        const bool together = vx_opt_int("together", 0) != 0;
        cmb_event_schedule(go_start, &procs[i], NULL, together ? (i <= n ? 1.0 : 5.0) : (i <= n ? 0.1 * i : 4.0 + 0.1 * i), 0);
    }
    if (op == 0) {
        cmb_event_schedule(go_cancel, &procs[victim], NULL, 2.0, 0);
    }
    int guard = 0;
    while (cmb_event_execute_next() && guard++ < 5000) {
        vx_transition();
    }
    /* model */
    int expect[NP], ne = 0;
    for (int i = 1; i <= n + late; i++) {
        if (i != victim) {
            expect[ne++] = i;
        }
    }
    for (int a = 0; a < ne; a++) {
        for (int b = a + 1; b < ne; b++) {
            if (go_prio[expect[b]] > go_prio[expect[a]]) { /* stable: earlier arrival first among equals */
                const int t = expect[b];
                for (int k = b; k > a; k--) {
                    expect[k] = expect[k - 1];
                }
                expect[a] = t;
            }
        }
    }
    bool same = go_nserved == ne;
    for (int k = 0; same && k < ne; k++) {
        same = go_order[k] == expect[k];
    }
    if (!same) {
        char got[80] = "", want[80] = "";
        for (int k = 0; k < go_nserved && k < 12; k++) {
            snprintf(got + strlen(got), sizeof got - strlen(got), "%d(p%d) ", go_order[k], go_prio[go_order[k]]);
        }
        for (int k = 0; k < ne && k < 12; k++) {
            snprintf(want + strlen(want), sizeof want - strlen(want), "%d(p%d) ", expect[k], go_prio[expect[k]]);
        }
        FAIL("service-order", "%d waiters, waiter %d left the list by %s at t=%d: served in the order %s- expected %s",
             n, victim, op ? "timeout" : "cancel", op ? 3 : 2, got, want);
    }
    uint64_t h = (uint64_t)victim * 2 + (uint64_t)op;
    for (int i = 1; i <= n + late; i++) {
        h = h * 3 + (uint64_t)go_prio[i];
    }
    vx_state(h);
    vx_outcome(h);
    res.holder = NULL;
    cmb_resource_terminate(&res);
}

/* ---- holders: n processes hold pool units, then preempt / priority change / stop */
static void *poolholder_body(struct cmb_process *me, void *ctx)
{
    const int id = (int)(intptr_t)ctx;
    (void)me;
    start_next();
    retsig[id] = cmb_resourcepool_acquire(&pool, 1);
    retsig[id] = cmb_process_hold(10.0);
    if (retsig[id] == CMB_PROCESS_SUCCESS) {
        cmb_resourcepool_release(&pool, 1);
    }
    return NULL;
}

static void *mugger_body(struct cmb_process *me, void *ctx)
{
    (void)ctx;
    (void)me;
    cmb_process_hold(2.0);
    if (op == 0) {
        retsig[0] = cmb_resourcepool_preempt(&pool, 3);
    }
    else if (op == 1) {
        cmb_process_priority_set(&procs[victim], 9);
        cmb_process_priority_set(&procs[victim], -9);
    }
    else {
        cmb_process_stop(&procs[victim], NULL);
    }
    return NULL;
}

/* at t = 1 every holder has its one unit, and the pool knows it */
static int holders_n;
static void holders_audit(void *s, void *o)
{
    (void)s;
    (void)o;
    uint64_t sum = 0;
    for (int i = 1; i <= holders_n; i++) {
        const uint64_t h = cmb_resourcepool_held_by_process(&pool, &procs[i]);
        sum += h;
        if (h != 1) {
            FAIL("holders:holding", "%d simultaneous holders of one unit each: holder %d (the %d. to acquire) holds %" PRIu64,
                 holders_n, i, i, h);
            return;
        }
    }
    if (cmb_resourcepool_in_use(&pool) != sum || cmb_resourcepool_available(&pool) != 0) {
        FAIL("holders:accounting", "%d holders hold %" PRIu64 " units together, the pool says %" PRIu64 " in use, %" PRIu64
             " available", holders_n, sum, cmb_resourcepool_in_use(&pool), cmb_resourcepool_available(&pool));
    }
}

static void run_holders(void)
{
    static const int NS[] = { 7, 8, 9, 15, 16, 17 };
    const int n = NS[vx_choose_free(6, "n")];
    holders_n = n;
    op = vx_choose_free(3, "op");
    const int which = vx_choose_free(3, "which");
    nprocs = n + 1;
    chain_next = 1;
    victim = which == 0 ? 1 : which == 1 ? n : 1 + n / 2;
    cmb_resourcepool_initialize(&pool, "P", (uint64_t)n);
    cmb_process_initialize(&procs[0], "m", mugger_body, NULL, 50);
    for (int i = 1; i <= n; i++) {
        cmb_process_initialize(&procs[i], "h", poolholder_body, (void *)(intptr_t)i, i % 3);
    }
    cmb_process_start(&procs[0]);
    start_next();
    cmb_event_schedule(holders_audit, NULL, NULL, 1.0, 0);
    int guard = 0;
    while (cmb_event_execute_next() && guard++ < 5000) {
        vx_transition();
    }
    if (cmb_resourcepool_in_use(&pool) != 0) {
        FAIL("pool-not-empty", "n=%d op=%d: %" PRIu64 " units still in use at the end", n, op, cmb_resourcepool_in_use(&pool));
    }
    vx_outcome((uint64_t)n * 100 + (uint64_t)op * 10 + (uint64_t)which);
    vx_state((uint64_t)n * 100 + (uint64_t)op * 10 + (uint64_t)which);
    cmb_resourcepool_terminate(&pool);
}

/* ---- timers: one process arms N timers (awaitable tags: 128 per chunk, 64 chunks = 8192) */
static int big_n;
static void *timers_body(struct cmb_process *me, void *ctx)
{
    (void)ctx;
    for (int i = 0; i < big_n; i++) {
        cmb_process_timer_add(me, 5.0 + (i % 7), 9000 + i);
    }
    if (op == 0) {
        cmb_process_timers_clear(me);
        retsig[0] = cmb_process_hold(1.0);
    }
    else if (op == 1) {
        retsig[0] = cmb_process_hold(100.0); /* the first timer interrupts the hold, the rest fire one by one */
        int n = 1;
        while (cmb_event_pattern_count(CMB_ANY_ACTION, me, CMB_ANY_OBJECT) > 0) {
            cmb_process_yield();
            n++;
        }
        retsig[1] = n;
    }
    else {
        retsig[0] = cmb_process_hold(100.0); /* interrupted from outside */
    }
    return NULL;
}

static void poke(void *s, void *o)
{
    (void)s;
    (void)o;
    cmb_process_interrupt(&procs[0], 4242, 0);
}

static void run_timers(void)
{
    big_n = 8189 + vx_choose_free(8, "n");
    op = vx_choose_free(3, "op");
    cmb_process_initialize(&procs[0], "t", timers_body, NULL, 0);
    nprocs = 1;
    cmb_process_start(&procs[0]);
    if (op == 2) {
        cmb_event_schedule(poke, NULL, NULL, 1.0, 0);
    }
    uint64_t n = 0;
    while (cmb_event_execute_next()) {
        n++;
    }
    vx_transitions(n);
    if (op == 1 && retsig[1] != big_n) {
        FAIL("timer-count", "N=%d timers armed, %" PRIi64 " fired", big_n, retsig[1]);
    }
    if (op == 2 && retsig[0] != 4242) {
        FAIL("interrupt-lost", "hold returned %" PRIi64, retsig[0]);
    }
    vx_outcome((uint64_t)big_n * 10 + (uint64_t)op);
    vx_state((uint64_t)big_n * 10 + (uint64_t)op);
}

/* ---- oqueue: N objects in an unlimited object queue (256 tags per chunk, 64 chunks = 16384) */
static void *oq_body(struct cmb_process *me, void *ctx)
{
    (void)me;
    (void)ctx;
    for (int i = 0; i < big_n; i++) {
        cmb_objectqueue_put(&oq, (void *)(uintptr_t)(i + 1));
    }
    int bad = 0;
    for (int i = 0; i < big_n; i++) {
        void *o = NULL;
        cmb_objectqueue_get(&oq, &o);
        bad += o != (void *)(uintptr_t)(i + 1);
    }
    retsig[0] = bad;
    return NULL;
}

static void run_oqueue(void)
{
    big_n = 16381 + vx_choose_free(7, "n");
    cmb_objectqueue_initialize(&oq, "Q", CMB_UNLIMITED);
    cmb_process_initialize(&procs[0], "o", oq_body, NULL, 0);
    nprocs = 1;
    cmb_process_start(&procs[0]);
    while (cmb_event_execute_next()) {
    }
    vx_transitions((uint64_t)big_n * 2);
    if (retsig[0] != 0) {
        FAIL("fifo", "N=%d: %" PRIi64 " objects came out of order", big_n, retsig[0]);
    }
    vx_outcome((uint64_t)big_n);
    vx_state((uint64_t)big_n);
    cmb_objectqueue_terminate(&oq);
}

/*
 * "pqorder" (registered under C12): n objects (beyond the queue's initial 8 slots) with every assignment of two
 * priority levels (ties are first in first out, so every assignment is a different total order), then one object
 * - every position - is cancelled or moved to the top or bottom priority; positions are compared with the model
 * before and after, and the drain must deliver the remaining objects in model order.
 */
static int po_n, po_prio[40], po_target, po_action;
static struct cmb_priorityqueue po_q;

static int po_model(const int *prio, const bool *gone, int n, int *out)
{
    int m = 0;
    for (int i = 0; i < n; i++) {
        if (!gone[i]) {
            out[m++] = i;
        }
    }
    for (int a = 1; a < m; a++) {       /* insertion sort: priority descending, handle (= put order) ascending */
        const int v = out[a];
        int b = a - 1;
        while (b >= 0 && prio[out[b]] < prio[v]) {
            out[b + 1] = out[b];
            b--;
        }
        out[b + 1] = v;
    }
    return m;
}

static bool po_positions(const uint64_t *h, const int *prio, const bool *gone, int n, const char *when)
{
    int order[40];
    const int m = po_model(prio, gone, n, order);
    if (cmb_priorityqueue_length(&po_q) != (uint64_t)m) {
        FAIL("length", "%s: length %" PRIu64 ", model %d", when, cmb_priorityqueue_length(&po_q), m);
        return false;
    }
    for (int k = 0; k < m; k++) {
        const uint64_t pos = cmb_priorityqueue_position(&po_q, h[order[k]]);
        if (pos != (uint64_t)k + 1) {
            FAIL("position", "%s: object %d (priority %d) is at position %" PRIu64 ", model %d", when, order[k],
                 prio[order[k]], pos, k + 1);
            return false;
        }
    }
    for (int i = 0; i < n; i++) {
        if (gone[i] && cmb_priorityqueue_position(&po_q, h[i]) != 0) {
            FAIL("position-of-cancelled", "%s: cancelled object %d still has a position", when, i);
            return false;
        }
    }
    return true;
}

static void *po_body(struct cmb_process *me, void *ctx)
{
    (void)me;
    (void)ctx;
    uint64_t h[40];
    int prio[40];
    bool gone[40] = { false };
    for (int i = 0; i < po_n; i++) {
        prio[i] = po_prio[i];
        cmb_priorityqueue_put(&po_q, (void *)(uintptr_t)(i + 1), prio[i], &h[i]);
    }
    if (!po_positions(h, prio, gone, po_n, "after the puts")) {
        return NULL;
    }
    if (po_action == 0) {
        if (!cmb_priorityqueue_cancel(&po_q, h[po_target])) {
            FAIL("cancel-return", "cancel of queued object %d returned false", po_target);
            return NULL;
        }
        gone[po_target] = true;
        if (cmb_priorityqueue_cancel(&po_q, h[po_target])) {
            FAIL("cancel-return", "second cancel of object %d returned true", po_target);
            return NULL;
        }
    }
    else {
        prio[po_target] = po_action == 1 ? 5 : -5;
        cmb_priorityqueue_reprioritize(&po_q, h[po_target], prio[po_target]);
    }
    if (!po_positions(h, prio, gone, po_n, po_action == 0 ? "after the cancel" : "after the change of priority")) {
        return NULL;
    }
    int order[40];
    const int m = po_model(prio, gone, po_n, order);
    for (int k = 0; k < m; k++) {
        void *o = NULL;
        const int64_t r = cmb_priorityqueue_get(&po_q, &o);
        if (r != CMB_PROCESS_SUCCESS || o != (void *)(uintptr_t)(order[k] + 1)) {
            FAIL("delivery", "get %d delivered object %d, model object %d (priority %d); %s of object %d",
                 k + 1, (int)(uintptr_t)o - 1, order[k], prio[order[k]],
                 po_action == 0 ? "after cancel" : "after reprioritisation", po_target);
            return NULL;
        }
    }
    if (cmb_priorityqueue_length(&po_q) != 0) {
        FAIL("length", "length %" PRIu64 " after everything was delivered", cmb_priorityqueue_length(&po_q));
    }
    return NULL;
}

static void run_pqorder(void)
{
    po_n = (int)vx_opt_int("n", 12);
    for (int i = 0; i < po_n; i++) {
        po_prio[i] = vx_choose_free(2, "priority");
    }
    po_target = vx_choose_free(po_n, "target");
    po_action = vx_choose_free(3, "action");
    cmb_priorityqueue_initialize(&po_q, "PQ", CMB_UNLIMITED);
    cmb_process_initialize(&procs[0], "p", po_body, NULL, 0);
    nprocs = 1;
    cmb_process_start(&procs[0]);
    while (cmb_event_execute_next()) {
    }
    vx_transitions((uint64_t)po_n * 2 + 1);
    uint64_t hsh = (uint64_t)po_target * 3 + (uint64_t)po_action;
    for (int i = 0; i < po_n; i++) {
        hsh = hsh * 2 + (uint64_t)po_prio[i];
    }
    vx_outcome(hsh);
    vx_state(hsh);
    cmb_priorityqueue_terminate(&po_q);
}

/* ---- observers: N observers registered on one guard (256 tags per chunk) */
static void run_observers(void)
{
    big_n = 16381 + vx_choose_free(7, "n");
    static struct cmb_resource a, b;
    cmb_resource_initialize(&a, "A");
    cmb_resource_initialize(&b, "B");
    nprocs = 0;
    for (int i = 0; i < big_n; i++) {
        cmb_resourceguard_register(&a.guard, &b.guard);
    }
    cmb_resourceguard_signal(&a.guard);
    int removed = 0;
    while (cmb_resourceguard_unregister(&a.guard, &b.guard)) {
        removed++;
    }
    vx_transitions((uint64_t)big_n * 2);
    if (removed != big_n) {
        FAIL("observer-count", "registered %d observers, unregistered %d", big_n, removed);
    }
    vx_outcome((uint64_t)big_n);
    vx_state((uint64_t)big_n);
    cmb_resource_terminate(&a);
    cmb_resource_terminate(&b);
}

/* ---- procwait: k processes wait for one process which ends by return/exit/stop with c events pending */
static void *target_body(struct cmb_process *me, void *ctx)
{
    (void)me;
    (void)ctx;
    start_next();
    cmb_process_hold(5.0);
    if (op == 1) {
        cmb_process_exit((void *)0x77);
    }
    return (void *)0x55;
}

static void *pw_body(struct cmb_process *me, void *ctx)
{
    const int id = (int)(intptr_t)ctx;
    (void)me;
    start_next();
    retsig[id] = cmb_process_wait_process(&procs[0]);
    rettime[id] = cmb_time();
    return NULL;
}

static void stopper(void *s, void *o)
{
    (void)s;
    (void)o;
    cmb_process_stop(&procs[0], NULL);
}

static void run_procwait(void)
{
    const int k = vx_choose_free(11, "k");
    static const int CS[] = { 6, 7, 8, 9, 14, 15, 16, 17 };
    const int c = CS[vx_choose_free(8, "c")];
    op = vx_choose_free(3, "op");
    nprocs = k + 1;
    chain_next = 0;
    cmb_process_initialize(&procs[0], "t", target_body, NULL, 1);
    for (int i = 1; i <= k; i++) {
        retsig[i] = 777;
        cmb_process_initialize(&procs[i], "w", pw_body, (void *)(intptr_t)i, i % 3);
    }
    start_next();
    while (cmb_event_queue_count() > 0 && cmi_verif_event_queue()->heap[1].dsortkey < 4.0 && cmb_event_execute_next()) {
    }
    if (op == 2) {
        cmb_event_schedule(stopper, NULL, NULL, 4.0, 0);
    }
    while ((int)cmb_event_queue_count() < c) {
        cmb_event_schedule(dummy, NULL, NULL, 100.0, 0);
    }
    while (cmb_event_execute_next()) {
        vx_transition();
    }
    for (int i = 1; i <= k; i++) {
        const int64_t want = op == 2 ? CMB_PROCESS_STOPPED : CMB_PROCESS_SUCCESS;
        if (retsig[i] != want || rettime[i] != (op == 2 ? 4.0 : 5.0)) {
            FAIL("waiter-outcome", "k=%d c=%d op=%d: waiter %d returned %" PRIi64 " at t=%g", k, c, op, i, retsig[i], rettime[i]);
            break;
        }
    }
    vx_outcome((uint64_t)k * 100 + (uint64_t)c + (uint64_t)op * 7);
    vx_state((uint64_t)k * 1000 + (uint64_t)c * 3 + (uint64_t)op);
}

/*
 * "closing": what a program does around its simulation rather than in it - heap-allocated objects
 * (create / initialize / terminate / destroy), the end-of-run reports and the finalisation of histories,
 * for objects that recorded nothing, one sample, or a constant, and the event queue printed while empty
 * and while populated. Every object type x {never recorded, recording on but no change, one change,
 * two changes} x {report, finalize + report} is enumerated; the oracle is the sanitizer and "no abort".
 */
static void *closing_body(struct cmb_process *me, void *ctx)
{
    (void)me;
    void **a = ctx;
    const int type = (int)(intptr_t)a[0], changes = (int)(intptr_t)a[1];
    void *obj = a[2];
    for (int k = 0; k < changes; k++) {
        void *got = NULL;
        uint64_t am = 1, h = 0;
        switch (type) {
        case 0: cmb_resource_acquire(obj); cmb_process_hold(1.0); cmb_resource_release(obj); break;
        case 1: cmb_resourcepool_acquire(obj, 1); cmb_process_hold(1.0); cmb_resourcepool_release(obj, 1); break;
        case 2: cmb_buffer_put(obj, &am); cmb_process_hold(1.0); am = 1; cmb_buffer_get(obj, &am); break;
        case 3: cmb_objectqueue_put(obj, (void *)0x10); cmb_process_hold(1.0); cmb_objectqueue_get(obj, &got); break;
        default: cmb_priorityqueue_put(obj, (void *)0x10, 1, &h); cmb_process_hold(1.0); cmb_priorityqueue_get(obj, &got); break;
        }
        cmb_process_hold(1.0);
    }
    return NULL;
}

static void run_closing(void)
{
    const int type = vx_choose_free(6, "object");      /* 5 = the bare data containers */
    const int rec = vx_choose_free(2, "recording");
    const int changes = vx_choose_free(3, "changes");
    const int fin = vx_choose_free(2, "finalize");
    const int npend = vx_choose_free(3, "pending-events");
    FILE *fp = fopen("/dev/null", "w");
    if (fp == NULL) {
        return;
    }
    /* the event queue printed empty, with one and with nine events pending */
    for (int k = 0; k < (npend == 0 ? 0 : npend == 1 ? 1 : 9); k++) {
        cmb_event_schedule(dummy, NULL, NULL, 50.0 + k, k % 3);
    }
    cmb_event_queue_print(fp);
    if (type == 5) {
        struct cmb_dataset *ds = cmb_dataset_create();
        cmb_dataset_initialize(ds);
        struct cmb_timeseries *ts = cmb_timeseries_create();
        cmb_timeseries_initialize(ts);
        struct cmb_datasummary *su = cmb_datasummary_create();
        cmb_datasummary_initialize(su);
        struct cmb_wtdsummary *ws = cmb_wtdsummary_create();
        cmb_wtdsummary_initialize(ws);
        for (int k = 0; k < changes; k++) {
            cmb_dataset_add(ds, 2.0);
            cmb_timeseries_add(ts, 2.0, (double)k);
            cmb_datasummary_add(su, 2.0);
            cmb_wtdsummary_add(ws, 2.0, rec ? 1.0 : 0.0);
        }
        if (fin) {
            cmb_timeseries_finalize(ts, 10.0);
        }
        cmb_datasummary_print(su, fp, true);
        cmb_wtdsummary_print(ws, fp, true);
        if (changes > 0) {
            struct cmb_datasummary s2;
            cmb_dataset_summarize(ds, &s2);
            cmb_datasummary_print(&s2, fp, false);
            cmb_dataset_print(ds, fp);
            cmb_timeseries_print(ts, fp);
        }
        if (rec) {
            cmb_dataset_reset(ds);
            cmb_timeseries_reset(ts);
            cmb_datasummary_reset(su);
            cmb_wtdsummary_reset(ws);
            cmb_dataset_add(ds, 1.0);
            cmb_timeseries_add(ts, 1.0, 0.0);
        }
        cmb_dataset_terminate(ds);
        cmb_dataset_destroy(ds);
        cmb_timeseries_terminate(ts);
        cmb_timeseries_destroy(ts);
        cmb_datasummary_terminate(su);
        cmb_datasummary_destroy(su);
        cmb_wtdsummary_terminate(ws);
        cmb_wtdsummary_destroy(ws);
        fclose(fp);
        cmb_event_queue_clear();
        return;
    }
    void *obj = NULL;
    struct cmb_timeseries *hist = NULL;
    switch (type) {
    case 0: { struct cmb_resource *r = cmb_resource_create(); cmb_resource_initialize(r, "R"); obj = r;
              if (rec) cmb_resource_start_recording(r);
              hist = cmb_resource_history(r); break; }
    case 1: { struct cmb_resourcepool *r = cmb_resourcepool_create(); cmb_resourcepool_initialize(r, "P", 2); obj = r;
              if (rec) cmb_resourcepool_start_recording(r);
              hist = cmb_resourcepool_get_history(r); break; }
    case 2: { struct cmb_buffer *r = cmb_buffer_create(); cmb_buffer_initialize(r, "B", 3); obj = r;
              if (rec) cmb_buffer_recording_start(r);
              hist = cmb_buffer_history(r); break; }
    case 3: { struct cmb_objectqueue *r = cmb_objectqueue_create(); cmb_objectqueue_initialize(r, "Q", 3); obj = r;
              if (rec) cmb_objectqueue_recording_start(r);
              hist = cmb_objectqueue_history(r); break; }
    default: { struct cmb_priorityqueue *r = cmb_priorityqueue_create(); cmb_priorityqueue_initialize(r, "PQ", 3); obj = r;
               if (rec) cmb_priorityqueue_recording_start(r);
               hist = cmb_priorityqueue_history(r); break; }
    }
    void *args[3] = { (void *)(intptr_t)type, (void *)(intptr_t)changes, obj };
    struct cmb_process *pp = cmb_process_create();
    cmb_process_initialize(pp, "closer", closing_body, args, 0);
    cmb_process_start(pp);
    while (cmb_event_execute_next()) {
        vx_transition();
        if (cmb_time() > 40.0) {
            break;
        }
    }
    if (rec) {
        switch (type) {
        case 0: cmb_resource_stop_recording(obj); break;
        case 1: cmb_resourcepool_stop_recording(obj); break;
        case 2: cmb_buffer_recording_stop(obj); break;
        case 3: cmb_objectqueue_recording_stop(obj); break;
        default: cmb_priorityqueue_recording_stop(obj); break;
        }
    }
    if (fin) {
        cmb_timeseries_finalize(hist, cmb_time());
    }
    switch (type) {
    case 0: cmb_resource_print_report(obj, fp); break;
    case 1: cmb_resourcepool_print_report(obj, fp); break;
    case 2: cmb_buffer_print_report(obj, fp); break;
    case 3: cmb_objectqueue_report_print(obj, fp); break;
    default: cmb_priorityqueue_report_print(obj, fp); break;
    }
    cmb_event_queue_print(fp);
    cmb_event_queue_clear();
    cmb_process_terminate(pp);
    cmb_process_destroy(pp);
    switch (type) {
    case 0: cmb_resource_destroy(obj); break;
    case 1: cmb_resourcepool_destroy(obj); break;
    case 2: cmb_buffer_destroy(obj); break;
    case 3: cmb_objectqueue_destroy(obj); break;
    default: cmb_priorityqueue_destroy(obj); break;
    }
    fclose(fp);
    vx_outcome((uint64_t)(type * 100 + rec * 50 + changes * 10 + fin * 3 + npend));
}

/*
 * "restart": one process object is started again and again (documented as valid after it has ended or was
 * stopped) - 6000 lives, ending by return, by exit from three frames down, or stopped by an event while it
 * holds; each life uses a few kilobytes of its stack. Whatever a start leaves behind accumulates.
 */
static int restart_route;

static void deep_use(int depth, volatile char *sink)
{
    volatile char pad[700];
    pad[0] = (char)depth;
    pad[699] = (char)(depth + 1);
    if (depth > 0) {
        deep_use(depth - 1, pad);
    }
    else if (restart_route == 1) {
        cmb_process_exit((void *)0x77);
    }
    *sink = pad[699];
}

static void *restart_body(struct cmb_process *me, void *ctx)
{
    (void)me;
    (void)ctx;
    volatile char c = 0;
    deep_use(3, &c);
    if (restart_route == 2) {
        cmb_process_hold(5.0); /* stopped from outside meanwhile */
    }
    return (void *)0x55;
}

static void restart_stopper(void *s, void *o)
{
    (void)o;
    cmb_process_stop(s, NULL);
}

static void run_restart(void)
{
    restart_route = vx_choose_free(3, "route");
    const int lives = (int)vx_opt_int("lives", 6000);
    cmb_process_initialize(&procs[0], "r", restart_body, NULL, 0);
    nprocs = 1;
    for (int k = 0; k < lives; k++) {
        cmb_process_start(&procs[0]);
        if (restart_route == 2) {
            cmb_event_schedule(restart_stopper, &procs[0], NULL, cmb_time() + 1.0, 0);
        }
        while (cmb_event_execute_next()) {
        }
        vx_transition();
        if (cmb_process_status(&procs[0]) != CMB_PROCESS_FINISHED) {
            FAIL("restart-not-finished", "life %d of the process did not end (route %d)", k, restart_route);
            break;
        }
        /* the usable stack must not dwindle from life to life (whatever its size is): more than 1 KiB lost since
         * the first life is reported long before the frames leave the block */
        const unsigned char *base = procs[0].core.stack_base, *lo = procs[0].core.stack;
        static ptrdiff_t first_span;
        if (k == 0) {
            first_span = base - lo;
        }
        if (base == NULL || lo == NULL || (base - lo) < first_span - 1024) {
            FAIL("restart-stack-shrinks", "after %d lives the top of the coroutine stack is %td bytes above its block's start, "
                 "it was %td after the first life", k + 1, base - lo, first_span);
            break;
        }
    }
    vx_outcome((uint64_t)restart_route);
    vx_state((uint64_t)restart_route);
}

/*
 * "manywaiters": a thousand processes (on both sides of the 1024-entry growth point of the waiting list) wait at one
 * condition / one resource / one event / one process; then a process - on its own coroutine stack - or an event action
 * does the one thing that wakes them all in one go (signal, release + hand-overs, the event, its own end).
 */
static struct cmb_process *mw_procs;
static int mw_n, mw_woken, mw_kind;
static struct cmb_condition mw_cond;
static int mw_x;
static uint64_t mw_event;

static bool mw_pred(const struct cmb_condition *c, const struct cmb_process *p, const void *ctx)
{
    (void)c;
    (void)p;
    (void)ctx;
    return mw_x != 0;
}

static void *mw_waiter(struct cmb_process *me, void *ctx)
{
    (void)me;
    (void)ctx;
    int64_t r = 777;
    switch (mw_kind) {
    case 0: r = cmb_condition_wait(&mw_cond, mw_pred, NULL); break;
    case 1: r = cmb_process_wait_event(mw_event); break;
    default: r = cmb_process_wait_process(&procs[0]); break;
    }
    mw_woken += r == CMB_PROCESS_SUCCESS;
    return NULL;
}

static void *mw_actor(struct cmb_process *me, void *ctx)
{
    (void)me;
    (void)ctx;
    cmb_process_hold(1.0);
    if (mw_kind == 0) {
        mw_x = 1;
        cmb_condition_signal(&mw_cond);
    }
    return NULL; /* kind 2: the end of this process is what they wait for */
}

static void mw_action(void *s, void *o)
{
    (void)s;
    (void)o;
    if (mw_kind == 0) {
        mw_x = 1;
        cmb_condition_signal(&mw_cond);
    }
}

static void run_manywaiters(void)
{
    static const int NS[] = { 1019, 1023, 1024, 1025, 1100 };
    mw_n = NS[vx_choose_free(5, "n")];
    mw_kind = vx_choose_free(3, "waits-for");
    const int from_process = mw_kind == 2 ? 1 : vx_choose_free(2, "woken-from");
    mw_woken = 0;
    mw_x = 0;
    mw_procs = calloc((size_t)mw_n, sizeof *mw_procs);
    cmb_condition_initialize(&mw_cond, "C");
    mw_event = 0;
    if (from_process) {
        cmb_process_initialize(&procs[0], "a", mw_actor, NULL, 0);
        cmb_process_start(&procs[0]);
        nprocs = 1;
    }
    if (mw_kind == 1 || !from_process) {
        mw_event = cmb_event_schedule(mw_action, NULL, NULL, 1.0, 0);
    }
    if (mw_kind == 1 && from_process) {
        /* the event executes while the actor process exists; it is the dispatcher that wakes the waiters */
    }
    for (int i = 0; i < mw_n; i++) {
        cmb_process_initialize(&mw_procs[i], "w", mw_waiter, NULL, 0);
        cmb_process_start(&mw_procs[i]);
    }
    int guard = 0;
    while (cmb_event_execute_next() && guard++ < 100000) {
    }
    vx_transitions((uint64_t)mw_n * 2);
    if (mw_woken != mw_n) {
        FAIL("manywaiters:woken", "%d of %d waiters (kind %d, woken from %s) came back with SUCCESS", mw_woken, mw_n, mw_kind,
             from_process ? "a process" : "an event action");
    }
    vx_outcome((uint64_t)mw_n * 8 + (uint64_t)mw_kind * 2 + (uint64_t)from_process);
    vx_state((uint64_t)mw_n * 8 + (uint64_t)mw_kind * 2 + (uint64_t)from_process);
    for (int i = 0; i < mw_n; i++) {
        if (mw_procs[i].core.stack != NULL) {
            free(mw_procs[i].core.stack);
        }
    }
    free(mw_procs);
    mw_procs = NULL;
    cmb_condition_terminate(&mw_cond);
}

/* ---- evchurn: a small, steady population of pending events over thousands of executions (handles far apart in age
 * share slots of the queue's hash map; the old ones leave while the young ones stay): every pending handle is looked
 * at by every query and touched by reschedule / reprioritise / cancel in turn. Valid use throughout. */
#define CHURN_MAX 12
static uint64_t churn_h[CHURN_MAX];
static int churn_k, churn_left, churn_touch;
static uint64_t churn_runs;

static void churn_action(void *subj, void *obj)
{
    (void)obj;
    const int slot = (int)(intptr_t)subj;
    churn_runs++;
    churn_h[slot] = 0;
    if (churn_left > 0) {
        churn_left--;
        /* uneven lifetimes: some events stay for a long time while many others come and go */
        const double dt = (double)(1 + (churn_runs * 7 + (uint64_t)slot * 3) % ((slot == 0) ? 97 : 5));
        churn_h[slot] = cmb_event_schedule(churn_action, subj, NULL, cmb_time() + dt, (int64_t)(churn_runs % 3));
    }
    for (int i = 0; i < churn_k; i++) {
        const uint64_t h = churn_h[i];
        if (h == 0) {
            continue;
        }
        if (!cmb_event_is_scheduled(h)) {
            FAIL("pending-event-not-found", "K=%d: handle %" PRIu64 " is pending but is-scheduled says no (after %" PRIu64 " executions)",
                 churn_k, h, churn_runs);
            /* and go on: the time and priority queries of a pending event are valid calls whatever that said */
        }
        const double t = cmb_event_time(h);
        const int64_t pr = cmb_event_priority(h);
        if (t < cmb_time()) {
            FAIL("pending-event-in-the-past", "handle %" PRIu64 " has time %g at t=%g", h, t, cmb_time());
        }
        if (churn_touch == 1 && (churn_runs + (uint64_t)i) % 4 == 0) {
            cmb_event_reschedule(h, t + 1.0);
        }
        else if (churn_touch == 2 && (churn_runs + (uint64_t)i) % 4 == 0) {
            cmb_event_reprioritize(h, pr + 1);
        }
        else if (churn_touch == 3 && i != slot && (churn_runs + (uint64_t)i) % 16 == 0 && churn_left > 0) {
            if (!cmb_event_cancel(h)) {
                FAIL("pending-event-not-cancelled", "cancel of pending handle %" PRIu64 " returned false", h);
            }
            churn_h[i] = cmb_event_schedule(churn_action, (void *)(intptr_t)i, NULL, cmb_time() + 2.0, 0);
        }
    }
}

static void run_evchurn(void)
{
    churn_k = 2 + vx_choose_free(CHURN_MAX - 1, "population");
    churn_touch = vx_choose_free(4, "touch");
    churn_left = 3000;
    churn_runs = 0;
    memset(churn_h, 0, sizeof churn_h);
    for (int i = 0; i < churn_k; i++) {
        churn_h[i] = cmb_event_schedule(churn_action, (void *)(intptr_t)i, NULL, (double)(i + 1), 0);
    }
    uint64_t n = 0;
    while (cmb_event_execute_next()) {
        n++;
    }
    vx_transitions(n);
    if (churn_runs != 3000 + (uint64_t)churn_k) {
        FAIL("executions", "K=%d touch=%d: %" PRIu64 " events ran, %d were scheduled and not cancelled", churn_k, churn_touch, churn_runs,
             3000 + churn_k);
    }
    vx_outcome((uint64_t)churn_k * 4 + (uint64_t)churn_touch);
    vx_state((uint64_t)churn_k * 4 + (uint64_t)churn_touch);
}

/* ---- evstop: the action of an event ends (or ends and starts again) a process that waits for that very event; a second
 * event of the same instant, still ahead of every wake-up, looks at what is pending for the victim */
static int es_k, es_victim, es_what, es_pending_seen;
static int64_t es_holdsig[NP];
static double es_holdret[NP], es_holdfrom[NP];
static int es_runs[NP];

static void *es_body(struct cmb_process *me, void *ctx)
{
    const int id = (int)(intptr_t)ctx;
    (void)me;
    es_runs[id]++;
    start_next();
    if (cmb_event_is_scheduled(the_event)) {
        retsig[id] = cmb_process_wait_event(the_event);
        rettime[id] = cmb_time();
    }
    es_holdfrom[id] = cmb_time();
    es_holdsig[id] = cmb_process_hold(10.0);
    es_holdret[id] = cmb_time();
    return NULL;
}

static void es_action(void *s, void *o)
{
    (void)s;
    (void)o;
    if (es_what >= 1) {
        cmb_process_stop(&procs[es_victim], NULL);
    }
    if (es_what == 2) {
        cmb_process_start(&procs[es_victim]);
    }
}

static void es_look(void *s, void *o)
{
    (void)s;
    (void)o;
    es_pending_seen = (int)cmb_event_pattern_count(CMB_ANY_ACTION, &procs[es_victim], CMB_ANY_OBJECT);
}

static void run_evstop(void)
{
    es_k = 1 + vx_choose_free(4, "waiters");
    es_victim = vx_choose_free(es_k, "victim");
    es_what = vx_choose_free(3, "what"); /* 0 nothing, 1 stop, 2 stop and start again */
    nprocs = es_k;
    chain_next = 0;
    es_pending_seen = -1;
    /* the awaited event runs first in its instant, the look second, every wake-up (priorities 0-2) after them */
    the_event = cmb_event_schedule(es_action, NULL, NULL, 5.0, 200);
    cmb_event_schedule(es_look, NULL, NULL, 5.0, 100);
    for (int i = 0; i < es_k; i++) {
        retsig[i] = 777;
        es_holdsig[i] = 777;
        es_holdret[i] = es_holdfrom[i] = -1.0;
        es_runs[i] = 0;
        cmb_process_initialize(&procs[i], "w", es_body, (void *)(intptr_t)i, i % 3);
    }
    start_next();
    uint64_t n = 0;
    while (n < 1000 && cmb_event_execute_next()) {
        n++;
    }
    vx_transitions(n);
    for (int i = 0; i < es_k; i++) {
        const bool victim = (i == es_victim && es_what >= 1);
        if (!victim) {
            if (retsig[i] != CMB_PROCESS_SUCCESS || rettime[i] != 5.0 || es_holdsig[i] != CMB_PROCESS_SUCCESS
                || es_holdret[i] != 15.0 || es_runs[i] != 1) {
                FAIL("bystander", "k=%d victim=%d what=%d: waiter %d: wait returned %" PRIi64 " at t=%g, its hold %" PRIi64
                     " at t=%g, body entered %d time(s)", es_k, es_victim, es_what, i, retsig[i], rettime[i], es_holdsig[i],
                     es_holdret[i], es_runs[i]);
                break;
            }
            continue;
        }
        if (retsig[i] != 777) {
            FAIL("ended-process-continued", "k=%d what=%d: the waiter stopped by the event's action came back from its wait "
                 "with %" PRIi64 " at t=%g", es_k, es_what, retsig[i], rettime[i]);
            break;
        }
        if (es_pending_seen != (es_what == 2 ? 1 : 0)) {
            FAIL("events-survive-end", "k=%d what=%d: right after the action that stopped it, %d event(s) are pending for the "
                 "process (%d expected: %s)", es_k, es_what, es_pending_seen, es_what == 2 ? 1 : 0,
                 es_what == 2 ? "its new start" : "none");
            break;
        }
        if (es_what == 1 && (es_runs[i] != 1 || es_holdret[i] >= 0.0)) {
            FAIL("ended-process-continued", "k=%d: the stopped waiter ran on (body entered %d time(s), hold returned at t=%g)",
                 es_k, es_runs[i], es_holdret[i]);
            break;
        }
        if (es_what == 2 && (es_runs[i] != 2 || es_holdfrom[i] != 5.0 || es_holdsig[i] != CMB_PROCESS_SUCCESS
                             || es_holdret[i] != 15.0)) {
            FAIL("new-life-disturbed", "k=%d: started again by the action, the process entered its body %d time(s); its hold(10) "
                 "from t=%g returned %" PRIi64 " at t=%g", es_k, es_runs[i], es_holdfrom[i], es_holdsig[i], es_holdret[i]);
            break;
        }
    }
    vx_outcome((uint64_t)es_k * 100 + (uint64_t)es_victim * 10 + (uint64_t)es_what);
    vx_state((uint64_t)es_k * 100 + (uint64_t)es_victim * 10 + (uint64_t)es_what);
}

static void run_one(void)
{
    memset(procs, 0, sizeof procs);
    memset(retsig, 0, sizeof retsig);
    nprocs = 0;
    cmb_event_queue_initialize(0.0);
    if (!strcmp(mode, "evwait")) run_evwait();
    else if (!strcmp(mode, "guardq")) run_guardq();
    else if (!strcmp(mode, "holders")) run_holders();
    else if (!strcmp(mode, "timers")) run_timers();
    else if (!strcmp(mode, "oqueue")) run_oqueue();
    else if (!strcmp(mode, "observers")) run_observers();
    else if (!strcmp(mode, "closing")) run_closing();
    else if (!strcmp(mode, "restart")) run_restart();
    else if (!strcmp(mode, "guardorder")) run_guardorder();
    else if (!strcmp(mode, "pqorder")) run_pqorder();
    else if (!strcmp(mode, "manywaiters")) run_manywaiters();
    else if (!strcmp(mode, "evchurn")) run_evchurn();
    else if (!strcmp(mode, "evstop")) run_evstop();
    else run_procwait();
    for (int i = 0; i < NP; i++) {
        if (procs[i].core.stack != NULL) {
            free(procs[i].core.stack);
            procs[i].core.stack = NULL;
        }
    }
    cmb_event_queue_terminate();
    cmi_mempool_cleanup(NULL);
    for (int k = 0; k < 5; k++) {
        *POOLS[k] = pool_image[k];
    }
}

static void ginit(void)
{
    mode = vx_opt("mode", "evwait");
    cmb_logger_flags_off(0x7FFFFFFFu);
    propid = vx_opt("prop", "c10");
    POOLS[0] = &cmi_process_awaitabletags;
    POOLS[1] = &cmi_process_holdabletags;
    POOLS[2] = &cmi_process_waitertags;
    POOLS[3] = &observer_tagpool;
    POOLS[4] = &objectqueue_tags;
    for (int k = 0; k < 5; k++) {
        pool_image[k] = *POOLS[k];
    }
}

int main(int argc, char **argv)
{
    struct vx_harness h = { "c10_ramps", run_one, NULL, ginit };
    return vx_main(argc, argv, &h);
}
