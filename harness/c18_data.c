/*
 * C18 - sorting, copies, medians, quartiles, histograms, correlograms of
 * datasets and time series respect their definitions.
 *
 * options: mode=small|perm|big|ts|free  maxlen=N
 *
 * cmb_timeseries.c is included textually (it is on the include path) so that the
 * static time-weighted histogram fill can be called; the harness therefore
 * provides the cmb_timeseries_* symbols itself, compiled from the same source.
 */
#include <float.h>
#include <inttypes.h>
#include <math.h>
#include <stdio.h>
#include <stdlib.h>
#include <string.h>

#include "vx_explore.h"

#include "cmb_timeseries.c"

#define MAXN 2100
static double xs[MAXN], dur[MAXN];
static int n;
static const char *mode;
static int maxlen;
static int o_huge;
static const char *ctx = "";

static char g_sig[200];
#define FAIL(rule, ...) do { snprintf(g_sig, sizeof g_sig, "c18:%s:%s", ctx, rule); vx_violation(g_sig, __VA_ARGS__); } while (0)

static const char *szclass(int k)
{
    return k == 1 ? "n1" : k == 2 ? "n2" : k <= 4 ? "n3-4" : k <= 8 ? "n5-8" : "large";
}

static int cmpd(const void *a, const void *b)
{
    const double x = *(const double *)a, y = *(const double *)b;
    return (x > y) - (x < y);
}

static bool parse5(const char *buf, double v[5])
{
    return sscanf(buf, "%lf %lf %lf %lf %lf", &v[0], &v[1], &v[2], &v[3], &v[4]) == 5;
}

static bool check_fivenum(const char *buf, double lo, double hi, const char *what, const double *vals,
                          const double *wts, int cnt)
{
    double v[5];
    char rule[100];
    if (!parse5(buf, v)) {
        snprintf(rule, sizeof rule, "%s:fivenum-unparsable:%s", what, szclass(n));
        FAIL(rule, "five-number summary output not parsable: '%.80s'", buf);
        return false;
    }
    /* printed with 4 significant digits: allow that much slack */
    const double sl = 1e-3 * (fabs(lo) + fabs(hi)) + 1e-12;
    for (int k = 0; k < 5; k++) {
        if (!(v[k] >= lo - sl && v[k] <= hi + sl)) {
            snprintf(rule, sizeof rule, "%s:fivenum-outside-range:%s", what, szclass(n));
            FAIL(rule, "five-number summary %g %g %g %g %g, data range [%g, %g]", v[0], v[1], v[2], v[3], v[4], lo, hi);
            return false;
        }
        if (k > 0 && v[k] < v[k - 1] - sl) {
            snprintf(rule, sizeof rule, "%s:fivenum-not-monotone:%s", what, szclass(n));
            FAIL(rule, "five-number summary %g %g %g %g %g is not non-decreasing", v[0], v[1], v[2], v[3], v[4]);
            return false;
        }
    }
    /* the median it reports must be a true (weighted) median of the data, to printing precision */
    if (vals != NULL && cnt > 0) {
        double below = 0, above = 0, tot = 0;
        for (int i = 0; i < cnt; i++) {
            const double w = wts ? wts[i] : 1.0;
            tot += w;
            below += (vals[i] < v[2] - sl) ? w : 0;
            above += (vals[i] > v[2] + sl) ? w : 0;
        }
        if (below > 0.5 * tot + 1e-9 * tot || above > 0.5 * tot + 1e-9 * tot) {
            snprintf(rule, sizeof rule, "%s:fivenum-median-not-a-median:%s", what, szclass(n));
            FAIL(rule, "five-number summary %g %g %g %g %g: of total weight %g, %g lies strictly below the reported median "
                 "and %g strictly above", v[0], v[1], v[2], v[3], v[4], tot, below, above);
            return false;
        }
    }
    return true;
}

static void check_hist(const struct cmi_dataset_histogram *hp, double total, const char *what)
{
    double sum = 0;
    char rule[100];
    for (unsigned b = 0; b < hp->num_bins; b++) {
        if (!(hp->hbins[b] >= 0.0)) {
            snprintf(rule, sizeof rule, "%s:histogram-negative-bin", what);
            FAIL(rule, "bin %u holds %g", b, hp->hbins[b]);
            return;
        }
        sum += hp->hbins[b];
    }
    if (!(fabs(sum - total) <= 1e-9 * (1 + fabs(total)))) {
        snprintf(rule, sizeof rule, "%s:histogram-total", what);
        FAIL(rule, "bins add up to %g, the samples (or their total weight) to %g", sum, total);
    }
}

static FILE *devnull;

/* the printed histogram shows what the bins hold: one row per bin, the two open-ended ones included, each bar as long as
 * the printer's own scale (50 blocks for the fullest bin) makes it */
static char *printed;
static size_t printed_len;
static FILE *print_open(void)
{
    printed = NULL;
    printed_len = 0;
    return open_memstream(&printed, &printed_len);
}

static void check_printed_hist(FILE *fp, const struct cmi_dataset_histogram *hp, const char *what)
{
    fclose(fp);
    char rule[100];
    const double scale = (hp->binmax > 0.0) ? hp->binmax / 50.0 : 1.0;
    unsigned row = 0;
    for (const char *ln = printed; ln != NULL && *ln != 0; ) {
        const char *nl = strchr(ln, '\n');
        const char *bar = memchr(ln, '|', nl ? (size_t)(nl - ln) : strlen(ln));
        if (bar != NULL) {
            uint64_t blocks = 0;
            for (const char *c = bar + 1; c != nl && *c != 0; c++) {
                blocks += *c == '#';
            }
            if (row < hp->num_bins && blocks != (uint64_t)(hp->hbins[row] / scale)) {
                snprintf(rule, sizeof rule, "%s:printed-histogram:bar-length", what);
                FAIL(rule, "row %u of the printed histogram has %" PRIu64 " blocks, its bin holds %g (scale %g per block)", row,
                     blocks, hp->hbins[row], scale);
                break;
            }
            row++;
        }
        ln = nl ? nl + 1 : NULL;
    }
    if (vx_violations_this_exec() == 0 && row != hp->num_bins) {
        snprintf(rule, sizeof rule, "%s:printed-histogram:rows", what);
        FAIL(rule, "the printed histogram has %u rows, the histogram %u bins (with the two open-ended ones)", row, hp->num_bins);
    }
    free(printed);
    printed = NULL;
}

/* Durbin-Levinson in long double, used only to judge how ill-conditioned the recursion is for
 * a given autocorrelation sequence (tiny perturbations of the ACF must not move the PACF) */
static void dl_pacf(const double *acf, unsigned lag, double eps, long double *out)
{
    long double phi[18][18];
    long double a[18];
    memset(phi, 0, sizeof phi);
    for (unsigned k = 0; k <= lag; k++) {
        a[k] = (long double)acf[k] + ((k & 1) ? eps : -eps) * (k > 0);
    }
    out[0] = 1;
    out[1] = a[1];
    phi[1][1] = a[1];
    for (unsigned k = 2; k <= lag; k++) {
        long double num = 0, den = 0;
        for (unsigned j = 1; j < k; j++) {
            num += phi[k - 1][j] * a[k - j];
            den += phi[k - 1][j] * a[j];
        }
        phi[k][k] = (a[k] - num) / (1 - den);
        out[k] = phi[k][k];
        for (unsigned j = 1; j < k; j++) {
            phi[k][j] = phi[k - 1][j] - phi[k][k] * phi[k - 1][k - j];
        }
    }
}

/* ------------------------------------------------------------------ dataset */
static void check_dataset(void)
{
    ctx = "dataset";
    struct cmb_dataset ds;
    cmb_dataset_initialize(&ds);
    if (n % 2 == 0) {
        /* half of the inputs meet an object that has had an earlier life (other data, sorted) and was reset */
        for (int i = 0; i < 7; i++) {
            cmb_dataset_add(&ds, 100.0 - 13.0 * i);
        }
        cmb_dataset_sort(&ds);
        cmb_dataset_reset(&ds);
    }
    double lo = DBL_MAX, hi = -DBL_MAX;
    for (int i = 0; i < n; i++) {
        cmb_dataset_add(&ds, xs[i]);
        lo = xs[i] < lo ? xs[i] : lo;
        hi = xs[i] > hi ? xs[i] : hi;
    }
    vx_transitions((uint64_t)n);
    if (cmb_dataset_count(&ds) != (uint64_t)n || cmb_dataset_min(&ds) != lo || cmb_dataset_max(&ds) != hi) {
        FAIL("count-min-max", "count %" PRIu64 " min %g max %g; expected %d %g %g", cmb_dataset_count(&ds),
             cmb_dataset_min(&ds), cmb_dataset_max(&ds), n, lo, hi);
        goto out;
    }
    /* copy is exact and independent, whatever the target held before: nothing, a few samples (an array smaller
     * than a grown source's), or more samples than the source */
    for (int life = 0; life < 3; life++) {
        struct cmb_dataset cp = { 0 };
        if (life > 0) {
            cmb_dataset_initialize(&cp);
            const int prior = (life == 1) ? 3 : 2 * n + 5;
            for (int i = 0; i < prior; i++) {
                cmb_dataset_add(&cp, 1000.0 + i);
            }
        }
        cmb_dataset_copy(&cp, &ds);
        if (cp.count != ds.count || memcmp(cp.xa, ds.xa, (size_t)n * sizeof(double)) != 0 || cp.min != lo || cp.max != hi) {
            FAIL("copy-differs", "copy of %d samples differs from the original", n);
            cmb_dataset_terminate(&cp);
            goto out;
        }
        cmb_dataset_add(&cp, 42.0);
        cmb_dataset_add(&cp, -42.0);
        if (cp.count != (uint64_t)n + 2 || ds.count != (uint64_t)n || memcmp(ds.xa, xs, (size_t)n * sizeof(double)) != 0) {
            FAIL("copy-not-independent", "adding to the copy disturbed the original or the copy's count");
            cmb_dataset_terminate(&cp);
            goto out;
        }
        cmb_dataset_terminate(&cp);
    }
    /* median */
    {
        const double med = cmb_dataset_median(&ds);
        int below = 0, above = 0;
        for (int i = 0; i < n; i++) {
            below += xs[i] < med;
            above += xs[i] > med;
        }
        if (2 * below > n || 2 * above > n || med < lo || med > hi) {
            char rule[80];
            snprintf(rule, sizeof rule, "median-not-a-median:%s", szclass(n));
            FAIL(rule, "median %g: %d of %d samples strictly below, %d strictly above, range [%g, %g]", med, below, n,
                 above, lo, hi);
            goto out;
        }
        vx_outcome(vx_hash_bytes(1, &med, 8));
    }
    /* five-number summary */
    {
        char *buf = NULL;
        size_t len = 0;
        FILE *fp = open_memstream(&buf, &len);
        cmb_dataset_fivenum_print(&ds, fp, false);
        fclose(fp);
        const bool ok = check_fivenum(buf, lo, hi, "dataset", xs, NULL, n);
        free(buf);
        if (!ok) {
            goto out;
        }
    }
    if (o_huge) {
        goto out; /* values near the top of the double range: sums of squares overflow by nature, order statistics must not */
    }
    /* histograms: through the public printer (range logic, sanitizer oracle) and through the fill */
    {
        static const unsigned NB[3] = { 1, 2, 5 };
        static const double RG[4][2] = { { 0, 0 }, { 0, 3 }, { 1, 2 }, { -1, 10 } };
        for (int b = 0; b < 3; b++) {
            for (int g = 0; g < 4; g++) {
                FILE *pf = print_open();
                cmb_dataset_histogram_print(&ds, pf, NB[b], RG[g][0], RG[g][1]);
                double l = RG[g][0], h = RG[g][1];
                unsigned nb = NB[b];
                if (l == h) {
                    l = lo;
                    h = hi;
                }
                const unsigned rng = (unsigned)ceil(h - l);
                if (rng < nb) {
                    nb = rng > 0 ? rng : 1;
                }
                if (h > l) {
                    struct cmi_dataset_histogram *hp = cmi_dataset_histogram_create(nb, l, h);
                    cmi_dataset_histogram_fill(hp, (uint64_t)n, ds.xa);
                    check_hist(hp, (double)n, "dataset");
                    if (vx_violations_this_exec() == 0) {
                        check_printed_hist(pf, hp, "dataset");
                        pf = NULL;
                    }
                    cmi_dataset_histogram_destroy(hp);
                    if (vx_violations_this_exec()) {
                        if (pf) { fclose(pf); free(printed); }
                        goto out;
                    }
                }
                if (pf) {
                    fclose(pf);
                    free(printed);
                }
            }
        }
    }
    /* sort: same multiset, ascending */
    {
        static double ref[MAXN];
        memcpy(ref, xs, (size_t)n * sizeof(double));
        qsort(ref, (size_t)n, sizeof(double), cmpd);
        cmb_dataset_sort(&ds);
        vx_outcome(vx_hash_bytes(5, ds.xa, (size_t)n * sizeof(double)));
        if (memcmp(ref, ds.xa, (size_t)n * sizeof(double)) != 0 || ds.count != (uint64_t)n) {
            char rule[80];
            snprintf(rule, sizeof rule, "sort-wrong:%s", szclass(n));
            FAIL(rule, "sorted array differs from the sorted multiset of the %d input samples", n);
            goto out;
        }
    }
    /* ACF / PACF: one at lag zero, invariant under shift and positive scaling */
    if (n >= 4) {
        cmb_dataset_terminate(&ds);
        cmb_dataset_initialize(&ds);
        for (int i = 0; i < n; i++) {
            cmb_dataset_add(&ds, xs[i]);
        }
        const unsigned lag = (unsigned)(n > 12 ? 10 : n - 2);
        double acf0[16], pacf0[16];
        cmb_dataset_ACF(&ds, lag, acf0);
        cmb_dataset_PACF(&ds, lag, pacf0, NULL);
        if (acf0[0] != 1.0 || pacf0[0] != 1.0) {
            FAIL("acf-lag0", "acf[0]=%g pacf[0]=%g", acf0[0], pacf0[0]);
            goto out;
        }
        /* the documented way to look at the coefficients is the correlogram printer, which insists (release
         * assertion) on values within [-1, 1]: it must be able to print what ACF and PACF computed for any data */
        cmb_dataset_correlogram_print(&ds, devnull, lag, acf0);
        cmb_dataset_correlogram_print(&ds, devnull, lag, pacf0);
        cmb_dataset_correlogram_print(&ds, devnull, lag, NULL);
        /* up to which lag is the PACF recursion well-conditioned for this ACF? */
        unsigned plag = lag;
        {
            long double p0[18], p1[18];
            dl_pacf(acf0, lag, 0.0, p0);
            dl_pacf(acf0, lag, 1e-10, p1);
            for (unsigned k = 1; k <= lag; k++) {
                const long double d = p0[k] - p1[k];
                if (!((d < 0 ? -d : d) < 1e-7L)) {
                    plag = k - 1;
                    break;
                }
            }
        }
        static const double SH[5] = { 1000.0, -7.0, 0.0, 0.0, 0.0 };
        static const double SC[5] = { 1.0, 1.0, 2.0, 0.5, 9.5367431640625e-07 };
        static const char *TN[5] = { "shift+1000", "shift-7", "scale2", "scale0.5", "scale2^-20" };
        for (int t = 0; t < 5; t++) {
            struct cmb_dataset d2;
            cmb_dataset_initialize(&d2);
            for (int i = 0; i < n; i++) {
                cmb_dataset_add(&d2, xs[i] * SC[t] + SH[t]);
            }
            double acf1[16], pacf1[16];
            cmb_dataset_ACF(&d2, lag, acf1);
            cmb_dataset_PACF(&d2, lag, pacf1, NULL);
            cmb_dataset_terminate(&d2);
            for (unsigned k = 0; k <= lag; k++) {
                const bool a_ok = fabs(acf1[k] - acf0[k]) <= 1e-9 || (isnan(acf1[k]) && isnan(acf0[k]));
                /* the Durbin-Levinson recursion breaks down when 1 - sum(phi*acf) is (nearly) zero: the
                 * coefficient is then +-inf or astronomically large and meaningless in both runs */
                const bool degenerate = !(fabs(pacf0[k]) < 1e3) || !(fabs(pacf1[k]) < 1e3);
                const bool p_ok = degenerate || k > plag || fabs(pacf1[k] - pacf0[k]) <= 1e-6;
                if (degenerate) {
                    break;
                }
                if (!a_ok || !p_ok) {
                    char rule[100];
                    snprintf(rule, sizeof rule, "%s-not-invariant:%s", a_ok ? "pacf" : "acf", TN[t]);
                    FAIL(rule, "lag %u: acf %g -> %g, pacf %g -> %g after %s", k, acf0[k], acf1[k], pacf0[k], pacf1[k], TN[t]);
                    goto out;
                }
            }
        }
    }
out:
    cmb_dataset_terminate(&ds);
}

/* ------------------------------------------------------------------ time series */
struct trip { double x, t, w; };
static int cmpt(const void *a, const void *b)
{
    const struct trip *p = a, *q = b;
    if (p->x != q->x) return (p->x > q->x) - (p->x < q->x);
    if (p->t != q->t) return (p->t > q->t) - (p->t < q->t);
    return (p->w > q->w) - (p->w < q->w);
}

static void check_timeseries(void)
{
    ctx = "timeseries";
    struct cmb_timeseries ts;
    cmb_timeseries_initialize(&ts);
    if (n % 2 == 0) {
        for (int i = 0; i < 7; i++) {
            cmb_timeseries_add(&ts, 100.0 - 13.0 * i, 2.0 * i);
        }
        cmb_timeseries_sort_x(&ts);
        cmb_timeseries_reset(&ts);
    }
    static struct trip ref[MAXN], got[MAXN];
    double t = 0, lo = DBL_MAX, hi = -DBL_MAX, wtot = 0;
    for (int i = 0; i < n; i++) {
        cmb_timeseries_add(&ts, xs[i], t);
        ref[i].x = xs[i];
        ref[i].t = t;
        ref[i].w = (i + 1 < n) ? dur[i] : 0.0;
        wtot += ref[i].w;
        lo = xs[i] < lo ? xs[i] : lo;
        hi = xs[i] > hi ? xs[i] : hi;
        t += dur[i];
    }
    vx_transitions((uint64_t)n);
    for (int i = 0; i < n; i++) {
        if (ts.ds.xa[i] != ref[i].x || ts.ta[i] != ref[i].t || ts.wa[i] != ref[i].w) {
            FAIL("add-triple", "sample %d is (%g, t=%g, w=%g), expected (%g, %g, %g)", i, ts.ds.xa[i], ts.ta[i], ts.wa[i],
                 ref[i].x, ref[i].t, ref[i].w);
            goto out;
        }
    }
    /* copy: exact, and the copy can be extended, whatever the target held before */
    for (int life = 0; life < 3; life++) {
        struct cmb_timeseries cp = { 0 };
        if (life > 0) {
            cmb_timeseries_initialize(&cp);
            const int prior = (life == 1) ? 3 : 2 * n + 5;
            for (int i = 0; i < prior; i++) {
                cmb_timeseries_add(&cp, 1000.0 + i, (double)i);
            }
        }
        cmb_timeseries_copy(&cp, &ts);
        bool same = cp.ds.count == (uint64_t)n;
        for (int i = 0; same && i < n; i++) {
            same = cp.ds.xa[i] == ref[i].x && cp.ta[i] == ref[i].t && cp.wa[i] == ref[i].w;
        }
        if (!same) {
            FAIL("copy-differs", "copy of a %d-sample time series differs from the original", n);
            cmb_timeseries_terminate(&cp);
            goto out;
        }
        cmb_timeseries_add(&cp, 9.0, t + 1);
        cmb_timeseries_add(&cp, 8.0, t + 2);
        if (cp.ds.count != (uint64_t)n + 2 || cp.ta[n + 1] != t + 2 || ts.ds.count != (uint64_t)n) {
            FAIL("copy-not-extendable", "adding to the copy went wrong");
            cmb_timeseries_terminate(&cp);
            goto out;
        }
        cmb_timeseries_terminate(&cp);
    }
    /* weighted median */
    {
        const double med = cmb_timeseries_median(&ts);
        double below = 0, above = 0;
        for (int i = 0; i < n; i++) {
            below += xs[i] < med ? ref[i].w : 0;
            above += xs[i] > med ? ref[i].w : 0;
        }
        if (below > 0.5 * wtot + 1e-12 || above > 0.5 * wtot + 1e-12 || med < lo || med > hi) {
            char rule[120];
            snprintf(rule, sizeof rule, "median-not-a-weighted-median:%s:%s", szclass(n),
                     (med < lo || med > hi) ? "outside-data-range" : below > 0.5 * wtot + 1e-12 ? "too-much-weight-below" : "too-much-weight-above");
            FAIL(rule, "median %g: weight strictly below %g, strictly above %g, total %g, data range [%g, %g]", med, below,
                 above, wtot, lo, hi);
            goto out;
        }
        vx_outcome(vx_hash_bytes(2, &med, 8));
    }
    /* five-number summary */
    {
        char *buf = NULL;
        size_t len = 0;
        FILE *fp = open_memstream(&buf, &len);
        cmb_timeseries_fivenum_print(&ts, fp, false);
        fclose(fp);
        vx_outcome(vx_hash_str(6, buf));
        double ww[64];
        for (int i = 0; i < n && i < 64; i++) {
            ww[i] = ref[i].w;
        }
        const bool ok = check_fivenum(buf, lo, hi, "timeseries", xs, ww, n < 64 ? n : 0);
        free(buf);
        if (!ok) {
            goto out;
        }
    }
    /* time-weighted histogram */
    if (n >= 2) {
        static const unsigned NB[3] = { 1, 2, 5 };
        static const double RG[4][2] = { { 0, 0 }, { 0, 3 }, { 1, 2 }, { -1, 10 } };
        for (int b = 0; b < 3; b++) {
            for (int g = 0; g < 4; g++) {
                FILE *pf = print_open();
                cmb_timeseries_histogram_print(&ts, pf, (uint16_t)NB[b], RG[g][0], RG[g][1]);
                double l = RG[g][0], h = RG[g][1];
                unsigned nb = NB[b];
                if (l == h) {
                    l = lo;
                    h = hi;
                }
                const unsigned rng = (unsigned)ceil(h - l);
                if (rng < nb) {
                    nb = rng > 0 ? rng : 1;
                }
                if (h > l) {
                    struct cmi_dataset_histogram *hp = cmi_dataset_histogram_create(nb, l, h);
                    timeseries_histogram_fill(hp, (uint64_t)n, ts.ds.xa, ts.wa);
                    check_hist(hp, wtot, "timeseries");
                    if (vx_violations_this_exec() == 0) {
                        check_printed_hist(pf, hp, "timeseries");
                        pf = NULL;
                    }
                    cmi_dataset_histogram_destroy(hp);
                    if (vx_violations_this_exec()) {
                        if (pf) { fclose(pf); free(printed); }
                        goto out;
                    }
                }
                if (pf) {
                    fclose(pf);
                    free(printed);
                }
            }
        }
    }
    /* sort by x: triples intact; sort by t: back in time order */
    {
        cmb_timeseries_sort_x(&ts);
        for (int i = 0; i < n; i++) {
            got[i].x = ts.ds.xa[i];
            got[i].t = ts.ta[i];
            got[i].w = ts.wa[i];
            if (i > 0 && got[i].x < got[i - 1].x) {
                FAIL("sort-x-not-ascending", "x[%d]=%g after x[%d]=%g", i, got[i].x, i - 1, got[i - 1].x);
                goto out;
            }
        }
        static struct trip a[MAXN], b[MAXN];
        memcpy(a, ref, (size_t)n * sizeof a[0]);
        memcpy(b, got, (size_t)n * sizeof b[0]);
        qsort(a, (size_t)n, sizeof a[0], cmpt);
        qsort(b, (size_t)n, sizeof b[0], cmpt);
        if (memcmp(a, b, (size_t)n * sizeof a[0]) != 0) {
            char rule[80];
            snprintf(rule, sizeof rule, "sort-x-tears-triples:%s", szclass(n));
            FAIL(rule, "after sorting by value the (value, time, weight) triples are not the original ones");
            goto out;
        }
        /* a series sorted by value is still the same series: copy, median and quartiles must not care */
        {
            struct cmb_timeseries cp = { 0 };
            cmb_timeseries_copy(&cp, &ts);
            bool same = cp.ds.count == (uint64_t)n;
            for (int i = 0; same && i < n; i++) {
                same = cp.ds.xa[i] == ts.ds.xa[i] && cp.ta[i] == ts.ta[i] && cp.wa[i] == ts.wa[i];
            }
            cmb_timeseries_terminate(&cp);
            if (!same) {
                FAIL("copy-differs:after-sort-x", "copy of a value-sorted %d-sample time series differs from the original", n);
                goto out;
            }
            const double med2 = cmb_timeseries_median(&ts);
            double below = 0, above = 0;
            for (int i = 0; i < n; i++) {
                below += ref[i].x < med2 ? ref[i].w : 0;
                above += ref[i].x > med2 ? ref[i].w : 0;
            }
            if (below > 0.5 * wtot + 1e-12 || above > 0.5 * wtot + 1e-12 || med2 < lo || med2 > hi) {
                char rule[120];
                snprintf(rule, sizeof rule, "median-not-a-weighted-median:after-sort-x:%s", szclass(n));
                FAIL(rule, "median of the value-sorted series %g: weight strictly below %g, above %g, total %g", med2, below, above, wtot);
                goto out;
            }
            char *buf = NULL;
            size_t len = 0;
            FILE *fp = open_memstream(&buf, &len);
            cmb_timeseries_fivenum_print(&ts, fp, false);
            fclose(fp);
            double vv[64], ww[64];
            for (int i = 0; i < n && i < 64; i++) {
                vv[i] = ref[i].x;
                ww[i] = ref[i].w;
            }
            const bool ok = check_fivenum(buf, lo, hi, "timeseries-after-sort-x", vv, ww, n < 64 ? n : 0);
            free(buf);
            if (!ok) {
                goto out;
            }
            /* ... its summary still weighs every sample by its own duration */
            if (wtot > 0) {
                struct cmb_wtdsummary ws;
                memset(&ws, 0, sizeof ws);
                cmb_timeseries_summarize(&ts, &ws);
                long double num = 0;
                for (int i = 0; i < n; i++) {
                    num += (long double)ref[i].x * ref[i].w;
                }
                const double exact = (double)(num / wtot), gotm = cmb_wtdsummary_mean(&ws);
                if (!(fabs(gotm - exact) <= 1e-12 * (1 + fabs(exact)))) {
                    FAIL("summary-differs:after-sort-x", "time-weighted mean of the value-sorted series %.17g, of the same "
                         "samples in time order %.17g", gotm, exact);
                    goto out;
                }
            }
            /* ... and its histogram still accounts for the full weight of every sample */
            if (hi > lo) {
                cmb_timeseries_histogram_print(&ts, devnull, 3, lo, hi);
                struct cmi_dataset_histogram *hp = cmi_dataset_histogram_create(3, lo, hi);
                timeseries_histogram_fill(hp, (uint64_t)n, ts.ds.xa, ts.wa);
                check_hist(hp, wtot, "timeseries-after-sort-x");
                cmi_dataset_histogram_destroy(hp);
                if (vx_violations_this_exec()) {
                    goto out;
                }
            }
        }
        cmb_timeseries_sort_t(&ts);
        for (int i = 0; i < n; i++) {
            got[i].x = ts.ds.xa[i];
            got[i].t = ts.ta[i];
            got[i].w = ts.wa[i];
            if (i > 0 && got[i].t < got[i - 1].t) {
                FAIL("sort-t-not-ascending", "t[%d]=%g after t[%d]=%g", i, got[i].t, i - 1, got[i - 1].t);
                goto out;
            }
        }
        memcpy(b, got, (size_t)n * sizeof b[0]);
        qsort(b, (size_t)n, sizeof b[0], cmpt);
        if (memcmp(a, b, (size_t)n * sizeof a[0]) != 0) {
            FAIL("sort-t-tears-triples", "after sorting by time the triples are not the original ones");
            goto out;
        }
    }
    /* closing ceremonies: extremes, then finalize gives the last sample its duration (on a series built afresh:
     * sorting by time does not promise to restore the order of samples with equal time stamps) */
    if (cmb_timeseries_min(&ts) != lo || cmb_timeseries_max(&ts) != hi) {
        FAIL("min-max", "min %g max %g, data range [%g, %g]", cmb_timeseries_min(&ts), cmb_timeseries_max(&ts), lo, hi);
        goto out;
    }
    {
        static const double EXTRA[2] = { 0.0, 5.0 };
        struct cmb_timeseries fs;
        cmb_timeseries_initialize(&fs);
        for (int i = 0; i < n; i++) {
            cmb_timeseries_add(&fs, ref[i].x, ref[i].t);
        }
        const double tlast = ref[n - 1].t;
        const double tf = tlast + EXTRA[(n + (int)xs[0]) % 2];
        const uint64_t r = cmb_timeseries_finalize(&fs, tf);
        bool ok = true;
        if (r != (uint64_t)n + 1 || fs.ds.count != (uint64_t)n + 1 || fs.ds.xa[n] != ref[n - 1].x || fs.ta[n] != tf
            || fs.wa[n - 1] != tf - tlast || fs.wa[n] != 0.0) {
            FAIL("finalize", "finalize at t=%g of a %d-sample series ending (%g, t=%g): count %" PRIu64 ", last two samples "
                 "(%g, t=%g, w=%g) (%g, t=%g, w=%g)", tf, n, ref[n - 1].x, tlast, fs.ds.count, fs.ds.xa[n - 1], fs.ta[n - 1],
                 fs.wa[n - 1], fs.ds.xa[n], fs.ta[n], fs.wa[n]);
            ok = false;
        }
        /* the finalized series weighs every original sample by its full duration */
        if (ok) {
            struct cmb_wtdsummary ws;
            memset(&ws, 0, sizeof ws);
            cmb_timeseries_summarize(&fs, &ws);
            long double num = 0, den = 0;
            for (int i = 0; i < n; i++) {
                const double w = (i + 1 < n) ? ref[i].w : tf - tlast;
                num += (long double)ref[i].x * w;
                den += w;
            }
            if (den > 0) {
                const double exact = (double)(num / den), gotm = cmb_wtdsummary_mean(&ws);
                if (!(fabs(gotm - exact) <= 1e-12 * (1 + fabs(exact)))) {
                    FAIL("finalized-mean", "time-weighted mean after finalize %.17g, exact %.17g", gotm, exact);
                }
            }
        }
        cmb_timeseries_terminate(&fs);
    }
out:
    cmb_timeseries_terminate(&ts);
    if (n == 1 && vx_violations_this_exec() == 0) {
        /* closing an object that never recorded anything (finalize asserts n == 0 || ... : an empty series is accepted) */
        struct cmb_timeseries e;
        cmb_timeseries_initialize(&e);
        const uint64_t r = cmb_timeseries_finalize(&e, 3.0);
        if (r > 1 || e.ds.count != r) {
            FAIL("finalize-empty", "finalize of an empty series returned %" PRIu64 ", count %" PRIu64, r, e.ds.count);
        }
        cmb_timeseries_terminate(&e);
    }
}

/* ------------------------------------------------------------------ free-running threads (for ThreadSanitizer)
 * Trial functions compute their statistics on the worker threads of cimba_run_experiment, each on its own objects:
 * every query below must give a thread exactly what it gives when called alone. */
#include <pthread.h>
#define FR_THREADS 3
static char *fr_solo[FR_THREADS];
static int fr_bad[FR_THREADS];

static char *fr_queries(int k)
{
    char *buf = NULL;
    size_t blen = 0;
    FILE *fp = open_memstream(&buf, &blen);
    const int cnt = 37 + 290 * k;        /* different lengths on different threads */
    struct cmb_timeseries ts;
    struct cmb_dataset ds;
    cmb_timeseries_initialize(&ts);
    cmb_dataset_initialize(&ds);
    double t = 0;
    for (int i = 0; i < cnt; i++) {
        const double x = (double)((i * 7 + 3 * k) % 11) + 0.25 * (i % 3);
        cmb_timeseries_add(&ts, x, t);
        cmb_dataset_add(&ds, x);
        t += (i == cnt / (k + 2)) ? 400.0 : (double)(i % 4);
    }
    cmb_timeseries_finalize(&ts, t + 1);
    fprintf(fp, "dmed %.17g tmed %.17g\n", cmb_dataset_median(&ds), cmb_timeseries_median(&ts));
    cmb_dataset_fivenum_print(&ds, fp, true);
    cmb_timeseries_fivenum_print(&ts, fp, true);
    cmb_dataset_histogram_print(&ds, fp, 7, 0.0, 0.0);
    cmb_timeseries_histogram_print(&ts, fp, 7, 0.0, 0.0);
    double acf[9], pacf[9];
    cmb_dataset_ACF(&ds, 8, acf);
    cmb_dataset_PACF(&ds, 8, pacf, acf);
    for (int i = 0; i <= 8; i++) {
        fprintf(fp, "%.17g %.17g\n", acf[i], i ? pacf[i] : 0.0);
    }
    cmb_dataset_correlogram_print(&ds, fp, 8, acf);
    struct cmb_wtdsummary ws;
    struct cmb_datasummary su;
    cmb_timeseries_summarize(&ts, &ws);
    cmb_dataset_summarize(&ds, &su);
    cmb_wtdsummary_print(&ws, fp, true);
    cmb_datasummary_print(&su, fp, true);
    struct cmb_timeseries cp = { 0 };
    cmb_timeseries_copy(&cp, &ts);
    cmb_timeseries_sort_x(&cp);
    fprintf(fp, "sorted tmed %.17g\n", cmb_timeseries_median(&cp));
    cmb_timeseries_sort_t(&cp);
    cmb_dataset_sort(&ds);
    fprintf(fp, "sorted dmed %.17g first %.17g\n", cmb_dataset_median(&ds), ds.xa[0]);
    cmb_timeseries_terminate(&cp);
    cmb_timeseries_terminate(&ts);
    cmb_dataset_terminate(&ds);
    fclose(fp);
    return buf;
}

static void *fr_body(void *a)
{
    const int k = (int)(long)a;
    for (int rep = 0; rep < 60; rep++) {
        char *got = fr_queries(k);
        if (strcmp(got, fr_solo[k]) != 0) {
            fr_bad[k]++;
        }
        free(got);
    }
    return NULL;
}

static void run_free(void)
{
    (void)vx_choose_free(1, "free-run");
    pthread_t th[FR_THREADS];
    for (int k = 0; k < FR_THREADS; k++) {
        fr_solo[k] = fr_queries(k);
        fr_bad[k] = 0;
    }
    for (int k = 0; k < FR_THREADS; k++) {
        pthread_create(&th[k], NULL, fr_body, (void *)(long)k);
    }
    for (int k = 0; k < FR_THREADS; k++) {
        pthread_join(th[k], NULL);
        if (fr_bad[k]) {
            vx_violation("free:c18:threads:results-differ", "thread %d: %d of 60 rounds of queries on its own data gave "
                         "results different from the same queries made alone", k, fr_bad[k]);
        }
        vx_outcome(vx_hash_bytes(5, fr_solo[k], strlen(fr_solo[k])));
        free(fr_solo[k]);
    }
    vx_transitions(60 * FR_THREADS);
    vx_state(1);
}

static void run_one(void)
{
    if (!strcmp(mode, "free")) {
        run_free();
        return;
    }
    if (!strcmp(mode, "perm")) {
        /* every permutation of 1..maxlen */
        bool used[16] = { false };
        n = maxlen;
        for (int i = 0; i < n; i++) {
            int k = vx_choose_free(n - i, "next");
            int j = 0;
            for (;; j++) {
                if (!used[j] && k-- == 0) {
                    break;
                }
            }
            used[j] = true;
            xs[i] = j + 1;
            dur[i] = 1 + (j % 3);
        }
    }
    else if (!strcmp(mode, "big")) {
        static const int SZ[] = { 1023, 1024, 1025, 2048, 2049 };
        n = SZ[vx_choose_free(5, "size")];
        const int pat = vx_choose_free(4, "pattern");
        for (int i = 0; i < n; i++) {
            xs[i] = pat == 0 ? i : pat == 1 ? n - i : pat == 2 ? 7.0 : (i % 17) - 8 + 0.25 * (i % 3);
            dur[i] = (i % 5 == 0) ? 0.0 : (i == n / 2) ? 5000.0 : 1.0;
        }
    }
    else {
        n = 1 + vx_choose_free(maxlen, "len");
        for (int i = 0; i < n; i++) {
            xs[i] = vx_choose_free(4, "x");
        }
        if (!strcmp(mode, "ts")) {
            static const double DU[3] = { 1.0, 0.0, 5.0 };
            for (int i = 0; i < n; i++) {
                dur[i] = DU[vx_choose_free(3, "dur")];
            }
        }
        else {
            for (int i = 0; i < n; i++) {
                dur[i] = 1.0;
            }
        }
    }
    uint64_t h = (uint64_t)n;
    for (int i = 0; i < n; i++) {
        h = vx_mix(h, (uint64_t)(int64_t)(xs[i] * 4) * 16 + (uint64_t)dur[i]);
    }
    vx_state(h);
    if (vx_tracing() && n <= 12) {
        vx_trace("n=%d:", n);
        for (int i = 0; i < n; i++) {
            vx_trace(" (%g,d=%g)", xs[i], dur[i]);
        }
        vx_trace("\n");
    }
    if (o_huge) {
        /* the same arrays with values near the top of the double range (0, 5.6e307, 1.1e308, 1.7e308): sorting, copying,
         * the median and the five-number summary are order statistics and must still be right */
        for (int i = 0; i < n; i++) {
            /* huge=2: both signs (-1.65e308, -5.5e307, 5.5e307, 1.65e308): differences overflow, too */
            xs[i] = o_huge == 2 ? (xs[i] - 1.5) * 1.1e308 : xs[i] * 5.6e307;
        }
        check_dataset();
        return;
    }
    if (strcmp(mode, "ts")) {
        check_dataset();
    }
    if (vx_violations_this_exec() == 0) {
        check_timeseries();
    }
}

static void ginit(void)
{
    mode = vx_opt("mode", "small");
    maxlen = (int)vx_opt_int("maxlen", 5);
    o_huge = (int)vx_opt_int("huge", 0);
    devnull = fopen("/dev/null", "w");
    cmb_logger_flags_off(0x7FFFFFFFu);
}

int main(int argc, char **argv)
{
    struct vx_harness h = { "c18_data", run_one, NULL, ginit };
    return vx_main(argc, argv, &h);
}
