/*
 * C16 - every sampler stays inside its support and follows its stated
 * distribution. The raw 64-bit generator is an enumerated environment (hook H2).
 *
 * options: mode=tables|lattice|aliasvec|seq  K=N  lbits=N  maxn=N
 */
#include <float.h>
#include <inttypes.h>
#include <math.h>
#include <pthread.h>
#include <stdio.h>
#include <stdlib.h>
#include <string.h>

#include "vx_explore.h"

#include "cmb_logger.h"
#include "cmb_random.h"

extern CMB_THREAD_LOCAL int (*cmi_verif_sfc64_override)(uint64_t *out);

/* private copies of the freshly generated tables (same build), for the table checks */
#define cmi_random_exp_zig_max vx_exp_zig_max
#define cmi_random_exp_zig_pdf_x vx_exp_zig_pdf_x
#define cmi_random_nor_zig_max vx_nor_zig_max
#define cmi_random_nor_zig_pdf_x vx_nor_zig_pdf_x
#include "cmi_random_exp_zig.inc"
#include "cmi_random_nor_zig.inc"
#undef cmi_random_exp_zig_max
#undef cmi_random_exp_zig_pdf_x
#undef cmi_random_nor_zig_max
#undef cmi_random_nor_zig_pdf_x

static const char *mode;
static char g_sig[220];
#define FAIL(rule, ...) do { snprintf(g_sig, sizeof g_sig, "c16:%s", rule); vx_violation(g_sig, __VA_ARGS__); } while (0)

/* ------------------------------------------------------------------ the raw-word environment */
#define MAXSCRIPT 8
static uint64_t script[MAXSCRIPT];
static int script_n, script_pos;
static uint64_t ndraws;
static bool runaway;
#define MIDWORD 0x8000000000000455ull /* mid-range upper bits, low byte 0x55: hot path of both ziggurats */

static uint64_t cont_state;

static int override_fn(uint64_t *out)
{
    ndraws++;
    if (script_pos < script_n) {
        *out = script[script_pos++];
    }
    else {
        /* beyond the enumerated words: a fixed, varying continuation (splitmix64 from a fixed seed),
         * identical for the library call and the reference call, so that rejection loops end */
        uint64_t z = (cont_state += 0x9e3779b97f4a7c15ull);
        z = (z ^ (z >> 30)) * 0xbf58476d1ce4e5b9ull;
        z = (z ^ (z >> 27)) * 0x94d049bb133111ebull;
        *out = z ^ (z >> 31);
        if (ndraws > 20000) {
            runaway = true;
        }
    }
    return 1;
}

static void env_reset(void)
{
    script_pos = 0;
    ndraws = 0;
    runaway = false;
    cont_state = 0x1234567;
}

/* ------------------------------------------------------------------ tables */
static void run_tables(void)
{
    (void)vx_choose_free(1, "tables");
    uint64_t checks = 0;
    /* exponential ziggurat: corner points on the pdf, equal-area layers, alias mass = overhang area */
    {
        const int M = vx_exp_zig_max + 1; /* index of the first entry that is not a rectangle */
        double X[256], Y[256], A[256] = { 0 }, P[256] = { 0 };
        for (int i = 0; i < 256; i++) {
            X[i] = ldexp(vx_exp_zig_pdf_x[i], 64);
            Y[i] = ldexp(cmi_random_exp_zig_pdf_y[i], 64);
        }
        if (vx_exp_zig_pdf_x[0] != cmi_random_exp_zig_pdf_x[0] || vx_exp_zig_max != cmi_random_exp_zig_max) {
            FAIL("tables:exponential:library-table-differs", "the table linked into the library differs from the generated one");
            return;
        }
        for (int i = 0; i <= M; i++) {
            checks++;
            if (memcmp(&vx_exp_zig_pdf_x[i], &cmi_random_exp_zig_pdf_x[i], 8) != 0) {
                FAIL("tables:exponential:library-table-differs", "entry %d of the library's x table differs from the generated one", i);
                return;
            }
            if (fabs(Y[i] - exp(-X[i])) > 1e-10 * Y[i]) {
                FAIL("tables:exponential:corner-not-on-pdf", "layer %d: y=%.17g but exp(-x)=%.17g at x=%.17g", i, Y[i], exp(-X[i]), X[i]);
                return;
            }
            if (i > 0 && !(X[i] < X[i - 1] && Y[i] > Y[i - 1])) {
                FAIL("tables:exponential:layers-not-nested", "layer %d: x=%.17g y=%.17g, previous x=%.17g y=%.17g", i, X[i], Y[i], X[i - 1], Y[i - 1]);
                return;
            }
            if (i < M) {
                const double area = X[i] * (i ? Y[i] - Y[i - 1] : Y[0]);
                if (fabs(area * 256.0 - 1.0) > 1e-9) {
                    FAIL("tables:exponential:layer-area", "layer %d has area %.17g, every layer must have 1/256", i, area);
                    return;
                }
            }
        }
        if (fabs(X[0] - exp_zig_x_tail_start) > 1e-12) {
            FAIL("tables:exponential:tail-start", "tail start %.17g but layer 0 ends at %.17g", exp_zig_x_tail_start, X[0]);
            return;
        }
        double tot = 0;
        A[0] = Y[0];
        for (int j = 1; j <= M; j++) {
            A[j] = (Y[j] - Y[j - 1]) - Y[j - 1] * (X[j - 1] - X[j]);
        }
        for (int j = 0; j <= M; j++) {
            tot += A[j];
        }
        for (int k = 0; k < 256; k++) {
            const double p = (double)exp_zig_u_prob[k] / 18446744073709551616.0;
            P[k] += p / 256.0;
            P[exp_zig_alias[k]] += (1.0 - p) / 256.0;
        }
        for (int j = 0; j < 256; j++) {
            checks++;
            if (fabs(P[j] - A[j] / tot) > 1e-9) {
                FAIL("tables:exponential:alias-mass", "overhang %d is selected with probability %.12g, its share of the area outside the "
                     "rectangles is %.12g", j, P[j], A[j] / tot);
                return;
            }
        }
        /* concavity bound: the pdf never lies further from the chord than the table says */
        for (int j = 1; j <= M; j++) {
            double worst = 0;
            for (int s = 1; s < 64; s++) {
                const double x = X[j] + (X[j - 1] - X[j]) * s / 64.0;
                const double chord = Y[j] + (Y[j - 1] - Y[j]) * s / 64.0;
                const double gap = (chord - exp(-x)) / (Y[j] - Y[j - 1]);
                worst = gap > worst ? gap : worst;
            }
            checks++;
            if (worst > (double)exp_zig_u_concavity[j] / 18446744073709551616.0 + 1e-9) {
                FAIL("tables:exponential:concavity-bound", "overhang %d: pdf is %.6g below the chord (relative), table allows %.6g", j, worst,
                     (double)exp_zig_u_concavity[j] / 18446744073709551616.0);
                return;
            }
        }
    }
    /* normal ziggurat (pdf scaled to exp(-x^2/2), x scaled by 2^63) */
    {
        const int M = vx_nor_zig_max + 1;
        double X[256], Y[256], A[256] = { 0 }, P[256] = { 0 };
        for (int i = 0; i < 256; i++) {
            X[i] = ldexp(vx_nor_zig_pdf_x[i], 63);
            Y[i] = ldexp(cmi_random_nor_zig_pdf_y[i], 63);
        }
        const double layer = sqrt(M_PI / 2.0) / 256.0;
        for (int i = 0; i <= M; i++) {
            checks++;
            if (memcmp(&vx_nor_zig_pdf_x[i], &cmi_random_nor_zig_pdf_x[i], 8) != 0) {
                FAIL("tables:normal:library-table-differs", "entry %d of the library's x table differs from the generated one", i);
                return;
            }
            if (fabs(Y[i] - exp(-0.5 * X[i] * X[i])) > 1e-10 * Y[i]) {
                FAIL("tables:normal:corner-not-on-pdf", "layer %d: y=%.17g but exp(-x^2/2)=%.17g", i, Y[i], exp(-0.5 * X[i] * X[i]));
                return;
            }
            if (i > 0 && !(X[i] < X[i - 1] && Y[i] > Y[i - 1])) {
                FAIL("tables:normal:layers-not-nested", "layer %d not nested in layer %d", i, i - 1);
                return;
            }
            if (i < M) {
                const double area = X[i] * (i ? Y[i] - Y[i - 1] : Y[0]);
                if (fabs(area / layer - 1.0) > 1e-9) {
                    FAIL("tables:normal:layer-area", "layer %d has area %.17g, expected %.17g", i, area, layer);
                    return;
                }
            }
        }
        if (fabs(X[0] - nor_zig_x_tail_start) > 1e-12 || fabs(nor_zig_inv_tail_start * nor_zig_x_tail_start - 1.0) > 1e-12) {
            FAIL("tables:normal:tail-start", "tail start %.17g (inverse %.17g), layer 0 ends at %.17g", nor_zig_x_tail_start,
                 nor_zig_inv_tail_start, X[0]);
            return;
        }
        /* overhang areas by Simpson's rule on the exact pdf */
        double tot = 0;
        A[0] = sqrt(M_PI / 2.0) * erfc(X[0] / sqrt(2.0));
        for (int j = 1; j <= M; j++) {
            const int NS = 2000;
            const double a = X[j], b = X[j - 1], hstep = (b - a) / NS;
            double s = 0;
            for (int q = 0; q <= NS; q++) {
                const double x = a + hstep * q;
                const double f = exp(-0.5 * x * x) - Y[j - 1];
                s += f * ((q == 0 || q == NS) ? 1 : (q & 1) ? 4 : 2);
            }
            A[j] = s * hstep / 3.0;
        }
        for (int j = 0; j <= M; j++) {
            tot += A[j];
        }
        for (int k = 0; k < 256; k++) {
            const double p = (double)nor_zig_i_prob[k] / 9223372036854775808.0;
            P[k] += p / 256.0;
            P[nor_zig_alias[k]] += (1.0 - p) / 256.0;
        }
        for (int j = 0; j < 256; j++) {
            checks++;
            if (fabs(P[j] - A[j] / tot) > 1e-8) {
                FAIL("tables:normal:alias-mass", "overhang %d is selected with probability %.12g, its share of the area outside the "
                     "rectangles is %.12g", j, P[j], A[j] / tot);
                return;
            }
        }
        if (!(X[nor_zig_inflection] <= 1.0 && X[nor_zig_inflection - 1] >= 1.0)) {
            FAIL("tables:normal:inflection", "inflection layer %d spans x in [%.6g, %.6g], the pdf's inflection is at 1", nor_zig_inflection,
                 X[nor_zig_inflection], X[nor_zig_inflection - 1]);
            return;
        }
    }
    vx_transitions(checks);
    vx_state(checks);
    vx_state(checks + 1);
    vx_outcome(checks);
}

/* ------------------------------------------------------------------ lattice: single-draw samplers */
static const double LD3[3] = { 0.2, 0.3, 0.5 };
static const double LD3_LOW[3] = { 0.2, 0.3, 0.4995 };  /* sums to 0.9995: inside the accepted tolerance */
static const double LD3_HIGH[3] = { 0.2, 0.3, 0.5005 };
static const double LD1[1] = { 1.0 };

struct latt { const char *name; int id; double a, b, c; };
static const struct latt LATT[] = {
    { "uniform(-1,3)", 0, -1, 3, 0 }, { "uniform(0,1e-300)", 0, 0, 1e-300, 0 }, { "uniform(-1e300,1e300)", 0, -1e300, 1e300, 0 },
    { "triangular(0,1,4)", 1, 0, 1, 4 }, { "triangular(0,0,1)", 1, 0, 0, 1 }, { "triangular(0,1,1)", 1, 0, 1, 1 },
    { "logistic(0,1)", 2, 0, 1, 0 }, { "pareto(2,1)", 3, 2, 1, 0 }, { "pareto(0.5,3)", 3, 0.5, 3, 0 },
    { "dice(1,6)", 4, 1, 6, 0 }, { "dice(-3,-2)", 4, -3, -2, 0 }, { "bernoulli(0.3)", 5, 0.3, 0, 0 },
    { "bernoulli(1)", 5, 1.0, 0, 0 }, { "bernoulli(0)", 5, 0.0, 0, 0 },
    { "loaded_dice(sum=1)", 6, 0, 0, 0 }, { "loaded_dice(sum=0.9995)", 6, 1, 0, 0 }, { "loaded_dice(sum=1.0005)", 6, 2, 0, 0 },
    { "loaded_dice(n=1)", 6, 3, 0, 0 },
    { "alias(sum=1)", 7, 0, 0, 0 }, { "alias(sum=0.9995)", 7, 1, 0, 0 }, { "alias(sum=1.0005)", 7, 2, 0, 0 },
    { "std_exponential-hot-path", 8, 0, 0, 0 }, { "std_normal-hot-path", 9, 0, 0, 0 },
};
#define NLATT ((int)(sizeof LATT / sizeof LATT[0]))

static const double *ld_vec(int which, unsigned *n)
{
    *n = which == 3 ? 1 : 3;
    return which == 0 ? LD3 : which == 1 ? LD3_LOW : which == 2 ? LD3_HIGH : LD1;
}

static void run_lattice(void)
{
    const struct latt *L = &LATT[vx_choose_free(NLATT, "sampler")];
    const int lbits = (int)vx_opt_int("lbits", 16);
    const uint64_t npts = 1ull << lbits;
    char rule[160];
    double prev = -INFINITY;
    bool have_prev = false;
    double counts[8] = { 0 };
    unsigned nvec = 0;
    const double *vec = NULL;
    struct cmb_random_alias *al = NULL;
    if (L->id == 6 || L->id == 7) {
        vec = ld_vec((int)L->a, &nvec);
    }
    if (L->id == 7) {
        al = cmb_random_alias_create(nvec, vec);
        /* exactness of the table: mass of every outcome equals its share of the weights */
        double tot = 0, P[8] = { 0 };
        for (unsigned i = 0; i < nvec; i++) {
            tot += vec[i];
        }
        for (unsigned k = 0; k < nvec; k++) {
            const double p = (al->uprob[k] == UINT64_MAX) ? 1.0 : (double)al->uprob[k] / 18446744073709551616.0;
            P[k] += p / nvec;
            if (al->alias[k] < nvec) {
                P[al->alias[k]] += (1.0 - p) / nvec;
            }
        }
        for (unsigned i = 0; i < nvec; i++) {
            if (fabs(P[i] - vec[i] / tot) > 1e-9) {
                snprintf(rule, sizeof rule, "lattice:%s:alias-table-mass", L->name);
                FAIL(rule, "outcome %u has probability %.12g in the alias table, requested %.12g", i, P[i], vec[i] / tot);
                cmb_random_alias_destroy(al);
                return;
            }
        }
    }
    cmi_verif_sfc64_override = override_fn;
    for (uint64_t k = 0; k <= npts + 1 && vx_violations_this_exec() == 0; k++) {
        /* lattice points: lower edge of every cell of the top lbits, plus the two extremes */
        uint64_t wd = k < npts ? (k << (64 - lbits)) : (k == npts ? UINT64_MAX : UINT64_MAX - 0x7ff);
        if (L->id == 8 || L->id == 9) {
            wd = (wd & ~0xffull) | (k % (L->id == 8 ? vx_exp_zig_max + 1u : vx_nor_zig_max + 1u)); /* stay on the hot path */
        }
        script[0] = wd;
        script[1] = (k & 1) ? 0 : UINT64_MAX; /* alias: second word at both extremes */
        script_n = 2;
        env_reset();
        const double u = ldexp((double)(wd >> 11), -53);
        double x = 0, F = u;
        bool cont = true, decreasing = false;
        switch (L->id) {
        case 0:
            x = cmb_random_uniform(L->a, L->b);
            F = (x - L->a) / (L->b - L->a);
            if (!(x >= L->a && x <= L->b)) {
                goto support;
            }
            break;
        case 1:
            x = cmb_random_triangular(L->a, L->b, L->c);
            F = x <= L->b ? (L->b > L->a ? (x - L->a) * (x - L->a) / ((L->c - L->a) * (L->b - L->a)) : 0.0)
                          : 1.0 - (L->c - x) * (L->c - x) / ((L->c - L->a) * (L->c - L->b));
            if (!(x >= L->a && x <= L->c)) {
                goto support;
            }
            break;
        case 2:
            x = cmb_random_logistic(L->a, L->b);
            F = 1.0 / (1.0 + exp(-(x - L->a) / L->b));
            if (!isfinite(x)) {
                goto support;
            }
            break;
        case 3:
            x = cmb_random_pareto(L->a, L->b);
            F = pow(L->b / x, L->a); /* survival function: the sampler maps u to the upper tail */
            decreasing = true;
            if (!(x >= L->b) || !isfinite(x)) {
                goto support;
            }
            break;
        case 4: {
            const long d = cmb_random_dice((long)L->a, (long)L->b);
            x = (double)d;
            cont = false;
            if (d < (long)L->a || d > (long)L->b) {
                goto support;
            }
            counts[d - (long)L->a] += 1;
            break;
        }
        case 5: {
            const unsigned bb = cmb_random_bernoulli(L->a);
            x = -(double)bb;
            cont = false;
            if (bb > 1) {
                goto support;
            }
            counts[bb] += 1;
            break;
        }
        case 6: {
            const unsigned idx = cmb_random_loaded_dice(nvec, vec);
            x = (double)idx;
            cont = false;
            if (idx >= nvec) {
                goto support;
            }
            counts[idx] += 1;
            break;
        }
        case 7: {
            const unsigned idx = cmb_random_alias_sample(al);
            x = 0;
            cont = false;
            prev = -INFINITY;
            if (idx >= nvec) {
                goto support;
            }
            const unsigned cell = (unsigned)floor(nvec * u);
            const uint64_t w2 = script[1];
            const unsigned expect = (w2 >= al->uprob[cell]) ? al->alias[cell] : cell;
            const bool second_high = w2 != 0;
            if (idx != expect) {
                snprintf(rule, sizeof rule, "lattice:%s:alias-selection", L->name);
                FAIL(rule, "cell %u, second word %s: got %u, table says %u", cell, second_high ? "max" : "0", idx, expect);
            }
            break;
        }
        case 8:
            x = cmb_random_std_exponential();
            cont = false;
            prev = -INFINITY;
            if (!(x >= 0 && x <= ldexp(vx_exp_zig_pdf_x[wd & 0xff], 64) * (1 + 1e-15))) {
                goto support;
            }
            break;
        case 9:
            x = cmb_random_std_normal();
            cont = false;
            prev = -INFINITY;
            if (!(fabs(x) <= ldexp(vx_nor_zig_pdf_x[wd & 0xff], 63) * (1 + 1e-15))) {
                goto support;
            }
            break;
        }
        vx_transition();
        if ((L->id == 2 || L->id == 3) && u == 0.0) {
            continue; /* an exact zero may be redrawn: only the support is checked for it */
        }
        if (k < npts) {
            /* monotone in the raw word */
            if (L->id <= 6 && have_prev && (decreasing ? (x > prev) : (x < prev))) {
                snprintf(rule, sizeof rule, "lattice:%s:not-monotone", L->name);
                FAIL(rule, "raw word %#" PRIx64 " gives %.17g, the previous lattice point gave %.17g", wd, x, prev);
                break;
            }
            prev = x;
            have_prev = true;
            if (cont && L->id <= 3 && isfinite(x)) {
                const double res = ldexp(1.0, -lbits);
                if (fabs(F - u) > 4 * DBL_EPSILON + 1e-12 && fabs(F - u) > 1e-9 * (1 + fabs(x)) && fabs(F - u) > res * 1e-3) {
                    snprintf(rule, sizeof rule, "lattice:%s:quantile-mismatch", L->name);
                    FAIL(rule, "u=%.17g gives x=%.17g whose distribution function value is %.17g", u, x, F);
                    break;
                }
            }
        }
        continue;
support:
        snprintf(rule, sizeof rule, "lattice:%s:outside-support", L->name);
        FAIL(rule, "raw word %#" PRIx64 " (u=%.17g) gives %.17g, outside the support", wd, u, x);
    }
    cmi_verif_sfc64_override = NULL;
    /* discrete outcome frequencies over the lattice */
    if (vx_violations_this_exec() == 0 && (L->id == 4 || L->id == 5 || L->id == 6)) {
        const int nout = L->id == 4 ? (int)(L->b - L->a + 1) : L->id == 5 ? 2 : (int)nvec;
        double tot = 0;
        if (L->id == 6) {
            for (unsigned i = 0; i < nvec; i++) {
                tot += vec[i];
            }
        }
        for (int i = 0; i < nout; i++) {
            const double want = L->id == 4 ? 1.0 / nout : L->id == 5 ? (i ? L->a : 1 - L->a) : vec[i];
            (void)tot;
            const double got = counts[i] / (double)(npts + 2);
            /* loaded dice: the documented tolerance on the sum is 1e-3, lattice resolution 2^-lbits */
            const double tol = ldexp(4.0, -lbits) + (L->id == 6 ? 1.1e-3 : 0);
            if (fabs(got - want) > tol) {
                snprintf(rule, sizeof rule, "lattice:%s:outcome-frequency", L->name);
                FAIL(rule, "outcome %d occurs on %.6f of the lattice, its probability is %.6f", i, got, want);
                break;
            }
        }
    }
    if (al) {
        cmb_random_alias_destroy(al);
    }
    vx_state((uint64_t)(L - LATT));
    vx_state(1000 + (uint64_t)(L - LATT));
    vx_outcome(vx_hash_bytes(1, counts, sizeof counts) ^ vx_hash_bytes(2, &prev, 8));
}

/* ------------------------------------------------------------------ sequences: multi-draw samplers */
static uint64_t OMEGA[48];
static int nomega;

static void build_omega(void)
{
    static const uint64_t EXT[] = { 0, 1, 0x7ff, 0x800, INT64_MAX, 1ull << 63, UINT64_MAX - 0x7ff, UINT64_MAX };
    for (unsigned k = 0; k < 8; k++) {
        OMEGA[nomega++] = EXT[k];
    }
    for (uint64_t k = 0; k < 16; k++) {
        OMEGA[nomega++] = (k << 60) | 0x0123456789abc55ull; /* grid of the top bits, low byte 0x55 */
    }
    static const uint8_t LB[] = { 0, 1, 200, 251, 252, 253, 254, 255 };
    for (unsigned k = 0; k < 8; k++) {
        OMEGA[nomega++] = 0x4000000000000000ull | LB[k];
        OMEGA[nomega++] = 0xfffffffffffff000ull | LB[k];
    }
}

/* Marsaglia & Tsang (2000), as published, on top of the library's normal and uniform */
static double ref_mt_gamma(double shape)
{
    const double d = shape - 1.0 / 3.0, c = 1.0 / sqrt(9.0 * d);
    for (;;) {
        double x, v;
        do {
            x = cmb_random_std_normal();
            v = 1.0 + c * x;
        } while (v <= 0.0);
        v = v * v * v;
        const double u = cmb_random();
        if (u < 1.0 - 0.0331 * (x * x) * (x * x)) {
            return d * v;
        }
        /* u = 0: log u = -inf is below any finite bound (written out so that the reference itself does not
         * divide by zero when the harness runs with the experiment's trap mask) */
        if (u == 0.0 || log(u) < 0.5 * x * x + d * (1.0 - v + log(v))) {
            return d * v;
        }
    }
}

static double ref_gamma(double shape, double scale)
{
    if (shape >= 1.0) {
        return scale * ref_mt_gamma(shape);
    }
    const double g = ref_mt_gamma(shape + 1.0);
    return scale * g * pow(cmb_random(), 1.0 / shape);
}

static double ref_beta(double a, double b)
{
    const double x = ref_gamma(a, 1.0), y = ref_gamma(b, 1.0);
    return x / (x + y);
}

static const double HM[3] = { 1.0, 0.5, 2.0 };
static const double HP[3] = { 0.2, 0.3, 0.5 };

enum sup { S_REAL, S_NONNEG, S_POS_FINITE, S_UNIT, S_RANGE, S_COUNT_GE1, S_COUNT_LE_N, S_COUNT };
struct seqs { const char *name; int id; double a, b, c, d; enum sup sup; };
static const struct seqs SEQS[] = {
    { "std_normal", 0, 0, 0, 0, 0, S_REAL }, { "normal(1,2)", 1, 1, 2, 0, 0, S_REAL }, { "lognormal(0,0.5)", 2, 0, 0.5, 0, 0, S_NONNEG },
    { "cauchy(0,1)", 3, 0, 1, 0, 0, S_REAL }, { "std_exponential", 4, 0, 0, 0, 0, S_NONNEG }, { "exponential(2)", 5, 2, 0, 0, 0, S_NONNEG },
    { "erlang(3,0.5)", 6, 3, 0.5, 0, 0, S_NONNEG }, { "hypoexponential", 7, 0, 0, 0, 0, S_NONNEG }, { "hyperexponential", 8, 0, 0, 0, 0, S_NONNEG },
    { "gamma(2.5,1)", 9, 2.5, 1, 0, 0, S_NONNEG }, { "gamma(1,2)", 9, 1, 2, 0, 0, S_NONNEG }, { "gamma(0.5,1)", 9, 0.5, 1, 0, 0, S_NONNEG },
    { "gamma(0.1,1)", 9, 0.1, 1, 0, 0, S_NONNEG },
    { "std_beta(2,3)", 10, 2, 3, 0, 0, S_UNIT }, { "std_beta(0.5,0.5)", 10, 0.5, 0.5, 0, 0, S_UNIT }, { "std_beta(0.1,2)", 10, 0.1, 2, 0, 0, S_UNIT },
    { "beta(2,2,-1,1)", 11, 2, 2, -1, 1, S_RANGE }, { "PERT(0,1,3)", 12, 0, 1, 3, 0, S_RANGE }, { "PERT_mod(0,1,3,0.5)", 13, 0, 1, 3, 0.5, S_RANGE },
    { "weibull(1.5,2)", 14, 1.5, 2, 0, 0, S_NONNEG }, { "weibull(0.5,1)", 14, 0.5, 1, 0, 0, S_NONNEG },
    { "chisquared(3)", 15, 3, 0, 0, 0, S_NONNEG }, { "chisquared(1)", 15, 1, 0, 0, 0, S_NONNEG }, { "F(3,5)", 16, 3, 5, 0, 0, S_NONNEG },
    { "std_t(4)", 17, 4, 0, 0, 0, S_REAL }, { "rayleigh(1)", 18, 1, 0, 0, 0, S_NONNEG },
    { "geometric(0.3)", 19, 0.3, 0, 0, 0, S_COUNT_GE1 }, { "geometric(1)", 19, 1.0, 0, 0, 0, S_COUNT_GE1 }, { "geometric(0.001)", 19, 1e-3, 0, 0, 0, S_COUNT_GE1 },
    { "binomial(7,0.5)", 20, 7, 0.5, 0, 0, S_COUNT_LE_N }, { "binomial(3,1)", 20, 3, 1.0, 0, 0, S_COUNT_LE_N },
    { "negative_binomial(2,0.5)", 21, 2, 0.5, 0, 0, S_COUNT }, { "negative_binomial(2,1)", 21, 2, 1.0, 0, 0, S_COUNT },
    { "poisson(2)", 22, 2, 0, 0, 0, S_COUNT }, { "triangular(0,0,0)", 23, 0, 0, 0, 0, S_RANGE },
    /* the standard gamma sampler called directly: documented (and asserted) for every shape > 0 */
    { "std_gamma(2.5)", 24, 2.5, 1, 0, 0, S_NONNEG }, { "std_gamma(0.5)", 24, 0.5, 1, 0, 0, S_NONNEG },
    { "std_gamma(0.2)", 24, 0.2, 1, 0, 0, S_NONNEG },
    /* shape parameters so small that both gamma variates underflow */
    { "std_beta(0.001,0.001)", 25, 0.001, 0.001, 0, 0, S_UNIT }, { "std_beta(0.001,3)", 25, 0.001, 3, 0, 0, S_UNIT },
    { "gamma(0.001,1)", 26, 0.001, 1, 0, 0, S_NONNEG },
    /* parameters at the large end: thousands of stages, shapes and trials */
    { "erlang(2000,0.5)", 6, 2000, 0.5, 0, 0, S_NONNEG }, { "gamma(10000,1)", 9, 10000, 1, 0, 0, S_NONNEG },
    { "binomial(1000,0.5)", 20, 1000, 0.5, 0, 0, S_COUNT_LE_N }, { "poisson(300)", 22, 300, 0, 0, 0, S_COUNT },
};
#define NSEQS ((int)(sizeof SEQS / sizeof SEQS[0]))

static double lib_call(const struct seqs *s)
{
    switch (s->id) {
    case 0: return cmb_random_std_normal();
    case 1: return cmb_random_normal(s->a, s->b);
    case 2: return cmb_random_lognormal(s->a, s->b);
    case 3: return cmb_random_cauchy(s->a, s->b);
    case 4: return cmb_random_std_exponential();
    case 5: return cmb_random_exponential(s->a);
    case 6: return cmb_random_erlang((unsigned)s->a, s->b);
    case 7: return cmb_random_hypoexponential(3, HM);
    case 8: return cmb_random_hyperexponential(3, HM, HP);
    case 9: return cmb_random_gamma(s->a, s->b);
    case 24: return cmb_random_std_gamma(s->a);
    case 25: return cmb_random_std_beta(s->a, s->b);
    case 26: return cmb_random_gamma(s->a, s->b);
    case 10: return cmb_random_std_beta(s->a, s->b);
    case 11: return cmb_random_beta(s->a, s->b, s->c, s->d);
    case 12: return cmb_random_PERT(s->a, s->b, s->c);
    case 13: return cmb_random_PERT_mod(s->a, s->b, s->c, s->d);
    case 14: return cmb_random_weibull(s->a, s->b);
    case 15: return cmb_random_chisquared(s->a);
    case 16: return cmb_random_F_dist(s->a, s->b);
    case 17: return cmb_random_std_t_dist(s->a);
    case 18: return cmb_random_rayleigh(s->a);
    case 19: return (double)cmb_random_geometric(s->a);
    case 20: return (double)cmb_random_binomial((unsigned)s->a, s->b);
    case 21: return (double)cmb_random_negative_binomial((unsigned)s->a, s->b);
    case 22: return (double)cmb_random_poisson(s->a);
    default: return cmb_random_triangular(s->a, s->b, s->c);
    }
}

/* the textbook construction of the stated distribution from the same raw words; NAN = no reference */
static double ref_call(const struct seqs *s)
{
    double x, y, t;
    unsigned n;
    switch (s->id) {
    case 1: return s->a + s->b * cmb_random_std_normal();
    case 2: return exp(s->a + s->b * cmb_random_std_normal());
    case 3:
        x = cmb_random_std_normal();
        while ((y = cmb_random_std_normal()) == 0.0) { }
        return s->a + s->b * x / y;
    case 5: return s->a * cmb_random_std_exponential();
    case 6:
        x = 0;
        for (unsigned k = 0; k < (unsigned)s->a; k++) {
            x += s->b * cmb_random_std_exponential();
        }
        return x;
    case 7:
        x = 0;
        for (int k = 0; k < 3; k++) {
            x += HM[k] * cmb_random_std_exponential();
        }
        return x;
    case 8: {
        const double u = cmb_random();
        double q = 0;
        int k;
        for (k = 0; k < 3; k++) {
            q += HP[k];
            if (u < q) {
                break;
            }
        }
        if (k > 2) {
            k = 2;
        }
        return HM[k] * cmb_random_std_exponential();
    }
    case 9: case 24: return ref_gamma(s->a, s->b);
    case 10: return ref_beta(s->a, s->b);
    case 11: return s->c + (s->d - s->c) * ref_beta(s->a, s->b);
    case 12:
    case 13: {
        const double lambda = s->id == 12 ? 4.0 : s->d, rng = s->c - s->a;
        return s->a + rng * ref_beta(1.0 + lambda * (s->b - s->a) / rng, 1.0 + lambda * (s->c - s->b) / rng);
    }
    case 14: return s->b * pow(cmb_random_std_exponential(), 1.0 / s->a);
    case 15: return ref_gamma(s->a / 2.0, 2.0);
    case 16:
        x = ref_gamma(s->a / 2.0, 2.0) / s->a;
        while ((y = ref_gamma(s->b / 2.0, 2.0) / s->b) == 0.0) { }
        return x / y;
    case 17:
        x = cmb_random_std_normal();
        while ((y = ref_gamma(s->a / 2.0, 2.0)) == 0.0) { }
        return x / sqrt(y / s->a);
    case 18:
        x = s->a * cmb_random_std_normal();
        y = s->a * cmb_random_std_normal();
        return sqrt(x * x + y * y);
    case 19:
        /* number of trials up to and including the first success */
        t = cmb_random_std_exponential();
        if (s->a >= 1.0) {
            return 1.0;
        }
        x = ceil(t / -log(1.0 - s->a));
        return x < 1.0 ? 1.0 : x;
    case 20:
        n = 0;
        for (unsigned k = 0; k < (unsigned)s->a; k++) {
            n += (cmb_random() <= s->b) ? 1u : 0u;
        }
        return (double)n;
    case 21:
        x = 0;
        for (unsigned k = 0; k < (unsigned)s->a; k++) {
            t = cmb_random_std_exponential();
            y = s->b >= 1.0 ? 1.0 : ceil(t / -log(1.0 - s->b));
            x += (y < 1.0 ? 1.0 : y) - 1.0;
        }
        return x;
    case 22:
        t = 0;
        n = 0;
        for (;;) {
            t += cmb_random_std_exponential() / s->a;
            if (t <= 1.0) {
                n++;
            }
            else {
                break;
            }
        }
        return (double)n;
    default:
        return NAN;
    }
}

static bool in_support(const struct seqs *s, double x)
{
    switch (s->sup) {
    case S_REAL: return isfinite(x);
    case S_NONNEG: return isfinite(x) && x >= 0.0;
    case S_POS_FINITE: return isfinite(x) && x > 0.0;
    case S_UNIT: return x >= 0.0 && x <= 1.0;
    case S_RANGE:
        if (s->id == 11) return x >= s->c && x <= s->d;
        return x >= s->a && x <= s->c;
    case S_COUNT_GE1: return x >= 1.0 && x < 4294967296.0;
    case S_COUNT_LE_N: return x >= 0.0 && x <= s->a;
    default: return x >= 0.0 && x < 4294967295.0;
    }
}

/*
 * Every probability vector of length 1..maxn over the weights {0, 1, 2, 5} (normalised; exact zeros
 * included, which is what a row of a transition matrix looks like): the alias table must give every
 * outcome exactly its probability - zero for a zero entry - and neither sampler may ever return an
 * outcome of probability zero, on a lattice of first raw words x {0, middle, max} second words.
 */
static void run_aliasvec(void)
{
    static const double W[4] = { 0.0, 1.0, 2.0, 5.0 };
    const int maxn = (int)vx_opt_int("maxn", 5);
    const unsigned n = 1u + (unsigned)vx_choose_free(maxn, "length");
    double vec[8], tot = 0;
    uint64_t h = n;
    for (unsigned i = 0; i < n; i++) {
        const int w = vx_choose_free(4, "weight");
        vec[i] = W[w];
        tot += vec[i];
        h = vx_mix(h, (uint64_t)w);
    }
    if (tot == 0.0) {
        return; /* not a distribution */
    }
    /* the probabilities sum to one up to rounding, or visibly less / more but within the tolerance the library admits
     * (then the draws above the sum fall to the last outcome that can occur at all) */
    static const double SCALE[3] = { 1.0, 1.0 - 4e-4, 1.0 + 4e-4 };
    const int sc = vx_opt_int("offsum", 1) ? vx_choose_free(3, "sum") : 0;
    h = vx_mix(h, (uint64_t)sc);
    vx_state(h);
    for (unsigned i = 0; i < n; i++) {
        vec[i] = vec[i] / tot * SCALE[sc];
    }
    /* what the library gets is a block of exactly n numbers: a look at pa[n] is a look outside it */
    double *pv = malloc(n * sizeof *pv);
    memcpy(pv, vec, n * sizeof *pv);
    char rule[160], desc[120] = "";
    for (unsigned i = 0; i < n; i++) {
        snprintf(desc + strlen(desc), sizeof desc - strlen(desc), "%s%.4g", i ? "," : "", vec[i]);
    }
    if (sc != 0) {
        /* off-unit sums: loaded dice only (inversion: frequencies are the probabilities, the gap goes to the last outcome) */
        cmi_verif_sfc64_override = override_fn;
        for (unsigned k = 0; k <= 1024u && vx_violations_this_exec() == 0; k++) {
            script[0] = k < 1024u ? ((uint64_t)k << 54) : UINT64_MAX;
            script[1] = 0;
            script_n = 2;
            env_reset();
            const unsigned id = cmb_random_loaded_dice(n, pv);
            vx_transition();
            if (id >= n || pv[id] == 0.0) {
                snprintf(rule, sizeof rule, "aliasvec:loaded_dice:%s:off-unit-sum", id >= n ? "index-out-of-range" : "zero-probability-outcome-drawn");
                FAIL(rule, "vector (%s), raw word %#" PRIx64 ": cmb_random_loaded_dice returned %u", desc, script[0], id);
            }
        }
        cmi_verif_sfc64_override = NULL;
        free(pv);
        return;
    }
    struct cmb_random_alias *al = cmb_random_alias_create(n, pv);
    double P[8] = { 0 };
    for (unsigned k = 0; k < n; k++) {
        const double p = (al->uprob[k] == UINT64_MAX) ? 1.0 : (double)al->uprob[k] / 18446744073709551616.0;
        P[k] += p / n;
        if (p < 1.0) {
            if (al->alias[k] >= n) {
                snprintf(rule, sizeof rule, "aliasvec:alias-index-out-of-range:n%u", n);
                FAIL(rule, "vector (%s): column %u is left with probability %.6g but its alias is %u", desc, k, 1.0 - p,
                     al->alias[k]);
                cmb_random_alias_destroy(al);
                return;
            }
            P[al->alias[k]] += (1.0 - p) / n;
        }
    }
    for (unsigned i = 0; i < n; i++) {
        if (fabs(P[i] - vec[i]) > 1e-12) {
            snprintf(rule, sizeof rule, "aliasvec:alias-table-mass:%s", vec[i] == 0.0 ? "zero-probability-outcome" : "positive-outcome");
            FAIL(rule, "vector (%s): outcome %u has probability %.15g in the alias table, requested %.15g", desc, i, P[i], vec[i]);
            cmb_random_alias_destroy(al);
            return;
        }
    }
    cmi_verif_sfc64_override = override_fn;
    static const uint64_t W2[3] = { 0, 1ull << 63, UINT64_MAX };
    double cnt_alias[8] = { 0 }, cnt_dice[8] = { 0 };
    const unsigned NP = 1u << 10;
    for (unsigned k = 0; k <= NP && vx_violations_this_exec() == 0; k++) {
        const uint64_t wd = k < NP ? ((uint64_t)k << 54) : UINT64_MAX;
        for (int j = 0; j < 3; j++) {
            script[0] = wd;
            script[1] = W2[j];
            script_n = 2;
            env_reset();
            const unsigned ia = cmb_random_alias_sample(al);
            script[0] = wd;
            script[1] = W2[j];
            env_reset();
            const unsigned id = cmb_random_loaded_dice(n, pv);
            vx_transitions(2);
            if (ia >= n || id >= n || vec[ia] == 0.0 || vec[id] == 0.0) {
                const bool a = ia >= n || vec[ia] == 0.0;
                snprintf(rule, sizeof rule, "aliasvec:%s:%s", a ? "alias_sample" : "loaded_dice",
                         (a ? ia : id) >= n ? "index-out-of-range" : "zero-probability-outcome-drawn");
                FAIL(rule, "vector (%s), raw words %#" PRIx64 " %#" PRIx64 ": %s returned %u", desc, wd, W2[j],
                     a ? "cmb_random_alias_sample" : "cmb_random_loaded_dice", a ? ia : id);
                break;
            }
            if (k < NP && j == 1) {
                cnt_alias[ia] += 1;
                cnt_dice[id] += 1;
            }
        }
    }
    /* loaded dice is inversion of the first word: its lattice frequencies are the probabilities to 2/NP per
     * boundary; the alias table's with the middle second word are within 1/n of a cell */
    for (unsigned i = 0; i < n && vx_violations_this_exec() == 0; i++) {
        if (fabs(cnt_dice[i] / NP - vec[i]) > 2.0 / NP + 1e-12) {
            snprintf(rule, sizeof rule, "aliasvec:loaded_dice:frequency");
            FAIL(rule, "vector (%s): outcome %u drawn on %.0f of %u lattice points, probability %.6g", desc, i, cnt_dice[i], NP, vec[i]);
        }
    }
    vx_outcome(vx_hash_bytes(1, cnt_alias, sizeof cnt_alias));
    cmi_verif_sfc64_override = NULL;
    cmb_random_alias_destroy(al);
    free(pv);
}


/*
 * The slow path of the two ziggurat samplers, decided by lattice integration: the sample is a function of the
 * raw words, which are independent and uniform. The hot path (first word's low byte <= zig_max) is a uniform
 * variate on an interval given by the table, so its density is known exactly; what the slow path produces must
 * therefore be distributed as the REST of the stated density, r(x) = p(x) - hot(x). Every first word that goes
 * to the slow path (each slow low byte x a lattice of its upper bits, both signs for the normal), every second
 * word (all 256 low bytes x a lattice of the upper bits) and a lattice of third words is enumerated with its
 * product weight; further words follow a fixed continuation seeded by the cell. The weighted histogram of the
 * results is compared, cumulatively, with the integral of r.
 */
static double std_normal_cdf(double x)
{
    return 0.5 * erfc(-x / sqrt(2.0));
}

static void run_zigslow(void)
{
    const int which = vx_choose_free(2, "sampler"); /* 0 exponential, 1 normal */
    const int M1 = (int)vx_opt_int("m1", 64), M2 = (int)vx_opt_int("m2", 32), M3 = (int)vx_opt_int("m3", 16);
    const unsigned zmax = which == 0 ? vx_exp_zig_max : vx_nor_zig_max;
    const double *px = which == 0 ? vx_exp_zig_pdf_x : vx_nor_zig_pdf_x;
    const double lo = which == 0 ? 0.0 : -6.0, hi = which == 0 ? 12.0 : 6.0, bw = 0.05;
    const int NB = (int)((hi - lo) / bw + 0.5);
    static double lat[400], ref[400];
    memset(lat, 0, sizeof lat);
    memset(ref, 0, sizeof ref);
    const double slow_mass = (255.0 - zmax) / 256.0;
    /* reference: integral of the stated density minus the hot path's share, per bin */
    for (int b = 0; b < NB; b++) {
        const double a = lo + b * bw, c = a + bw;
        double p = which == 0 ? exp(-a) - exp(-c) : std_normal_cdf(c) - std_normal_cdf(a);
        double hot = 0;
        for (unsigned i = 0; i <= zmax; i++) {
            const double L = ldexp(px[i], which == 0 ? 64 : 63);
            const double s0 = which == 0 ? 0.0 : -L, s1 = L;
            const double u0 = a > s0 ? a : s0, u1 = c < s1 ? c : s1;
            if (u1 > u0) {
                hot += (u1 - u0) / (s1 - s0) / 256.0;
            }
        }
        ref[b] = p - hot;
    }
    cmi_verif_sfc64_override = override_fn;
    const int nsign = which == 0 ? 1 : 2;
    const double wcell = 1.0 / 256.0 / M1 / nsign / 256.0 / M2 / M3;
    double outside = 0;
    for (unsigned b1 = zmax + 1; b1 <= 255; b1++) {
        for (int sg = 0; sg < nsign; sg++) {
            for (int k1 = 0; k1 < M1; k1++) {
                uint64_t w1;
                if (which == 0) {
                    w1 = (uint64_t)(((double)k1 + 0.5) / M1 * 18446744073709551616.0);
                }
                else {
                    w1 = (uint64_t)(((double)k1 + 0.5) / M1 * 9223372036854775808.0) | ((uint64_t)sg << 63);
                }
                w1 = (w1 & ~0xffull) | b1;
                for (unsigned b2 = 0; b2 < 256; b2++) {
                    for (int k2 = 0; k2 < M2; k2++) {
                        const uint64_t w2 = (((uint64_t)(((double)k2 + 0.5) / M2 * 18446744073709551616.0)) & ~0xffull) | b2;
                        for (int k3 = 0; k3 < M3; k3++) {
                            const uint64_t w3 = (uint64_t)(((double)k3 + 0.5) / M3 * 18446744073709551616.0);
                            script[0] = w1;
                            script[1] = w2;
                            script[2] = w3;
                            script_n = 3;
                            env_reset();
                            cont_state = vx_mix(vx_mix(w1, w2), w3);
                            const double x = which == 0 ? cmb_random_std_exponential() : cmb_random_std_normal();
                            const int bin = (int)floor((x - lo) / bw);
                            if (!(x >= lo) || bin >= NB || runaway) {
                                outside += wcell;
                            }
                            else {
                                lat[bin] += wcell;
                            }
                        }
                    }
                }
            }
        }
    }
    cmi_verif_sfc64_override = NULL;
    vx_transitions((uint64_t)(255 - zmax) * (uint64_t)nsign * (uint64_t)M1 * 256u * (uint64_t)M2 * (uint64_t)M3);
    /* cumulative comparison, in units of the slow path's mass */
    double cum = 0, worst = 0, worst_at = lo;
    for (int b = 0; b < NB; b++) {
        cum += lat[b] - ref[b];
        if (fabs(cum) > fabs(worst)) {
            worst = cum;
            worst_at = lo + (b + 1) * bw;
        }
    }
    const double tol = vx_opt_int("tolppm", 8000) * 1e-6;
    vx_trace("%s: slow-path mass %.6g, lattice mass in range %.6g (outside %.3g), largest cumulative difference %.3g of the "
             "slow mass at x=%.2f\n", which == 0 ? "std_exponential" : "std_normal", slow_mass, slow_mass - outside, outside,
             worst / slow_mass, worst_at);
    vx_state((uint64_t)which);
    {
        const double q = floor(worst / slow_mass * 1e4);
        vx_outcome(vx_hash_bytes((uint64_t)which, &q, 8));
    }
    if (fabs(worst) > tol * slow_mass) {
        char rule[120];
        snprintf(rule, sizeof rule, "zigslow:%s:slow-path-not-the-rest-of-the-density", which == 0 ? "std_exponential" : "std_normal");
        FAIL(rule, "integrated over all raw words that take the slow path, P(X < %.2f) differs from what the stated density "
             "leaves for the slow path by %.3g of the slow path's mass %.4g (lattice %d x 256x%d x %d; tolerance %.3g)",
             worst_at, worst / slow_mass, slow_mass, M1, M2, M3, tol);
    }
}

static void on_fresh_thread(void (*fn)(void));
static const struct seqs *sq_s;
static double sq_x, sq_r, sq_mirror;
static uint64_t sq_used;
static bool sq_ran;

static void seq_calls(void)
{
    const struct seqs *s = sq_s;
    cmi_verif_sfc64_override = override_fn;
    env_reset();
    sq_x = lib_call(s);
    sq_used = ndraws;
    sq_ran = runaway;
    env_reset();
    sq_r = ref_call(s);
    /* the normal sampler takes its sign from bit 63 of the first raw word and nothing else from it:
     * flipping that bit must negate the sample exactly, whatever branch of the ziggurat is taken */
    sq_mirror = NAN;
    /* (on the hot path the word is used as a two's complement integer instead: no such pairing there) */
    if ((s->id == 0 || s->id == 1) && (script[0] & 0xff) > vx_nor_zig_max) {
        script[0] ^= 1ull << 63;
        env_reset();
        sq_mirror = lib_call(s);
        script[0] ^= 1ull << 63;
    }
    cmi_verif_sfc64_override = NULL;
}

/*
 * "history": what a sampler returns for given raw words does not depend on which samplers, with which parameters,
 * the thread called before. Every ordered triple of the sampler/parameter entries: the first two are called, then
 * the third, whose value must be bit-identical to the one it gives on a thread that has called nothing else.
 */
static const struct seqs *h3_s[3];
static double h3_after, h3_alone;
static bool h3_ran;

static void h3_after_calls(void)
{
    cmi_verif_sfc64_override = override_fn;
    for (int k = 0; k < 3; k++) {
        env_reset();
        h3_after = lib_call(h3_s[k]);
    }
    h3_ran = runaway;
    cmi_verif_sfc64_override = NULL;
}

static void h3_alone_call(void)
{
    cmi_verif_sfc64_override = override_fn;
    env_reset();
    h3_alone = lib_call(h3_s[2]);
    cmi_verif_sfc64_override = NULL;
}

static void run_history(void)
{
    for (int k = 0; k < 3; k++) {
        h3_s[k] = &SEQS[vx_choose_free(NSEQS, k == 2 ? "sampler" : "earlier-call")];
    }
    static const int SC[2][2] = { { 3, 17 }, { 29, 8 } };
    const int v = vx_choose_free(2, "raw-words");
    script_n = 2;
    script[0] = OMEGA[SC[v][0] % nomega];
    script[1] = OMEGA[SC[v][1] % nomega];
    if (vx_opt_int("fptrap", 0) && (h3_s[0]->id == 23 || h3_s[1]->id == 23 || h3_s[2]->id == 23)) {
        return; /* see run_seq */
    }
    on_fresh_thread(h3_after_calls);
    on_fresh_thread(h3_alone_call);
    vx_transitions(4);
    uint64_t key[4] = { (uint64_t)(h3_s[0] - SEQS), (uint64_t)(h3_s[1] - SEQS), (uint64_t)(h3_s[2] - SEQS), (uint64_t)v };
    vx_state(vx_hash_bytes(77, key, sizeof key));
    vx_outcome(vx_hash_bytes(78, &h3_after, 8));
    if (h3_ran) {
        return;
    }
    if (memcmp(&h3_after, &h3_alone, sizeof(double)) != 0 && !(isnan(h3_after) && isnan(h3_alone))) {
        char rule[160];
        snprintf(rule, sizeof rule, "history:%s:depends-on-earlier-calls", h3_s[2]->name);
        FAIL(rule, "after %s and %s on the same thread %s gives %.17g for the raw words %#" PRIx64 " %#" PRIx64 " ..., "
             "on a thread that called nothing before %.17g", h3_s[0]->name, h3_s[1]->name, h3_s[2]->name, h3_after,
             script[0], script[1], h3_alone);
    }
}

static void run_seq(void)
{
    const int K = (int)vx_opt_int("K", 2);
    const struct seqs *s = &SEQS[vx_choose_free(NSEQS, "sampler")];
    if (s->id == 23 && vx_opt_int("fptrap", 0)) {
        /* the header documents min < mode < max; the degenerate point mass is accepted by the assertions and
         * returns the point, but its 0/0 is not held against the library where invalid operations trap */
        return;
    }
    script_n = K;
    for (int k = 0; k < K; k++) {
        script[k] = OMEGA[vx_choose_free(nomega, "raw")];
    }
    char rule[160];
    /* the calls are made on a thread of their own: whatever the library keeps per thread between calls (cached
     * constants of the last parameters) starts from its initial state in every execution, also in a replay */
    sq_s = s;
    on_fresh_thread(seq_calls);
    const double x = sq_x, r = sq_r, mirror = sq_mirror;
    const uint64_t used = sq_used;
    const bool ran = sq_ran;
    vx_transitions(used);
    vx_state(vx_hash_bytes((uint64_t)(s - SEQS), script, sizeof(uint64_t) * (size_t)K));
    vx_outcome(vx_hash_bytes((uint64_t)(s - SEQS), &x, 8));
    if (vx_tracing()) {
        vx_trace("%s raw", s->name);
        for (int k = 0; k < K; k++) {
            vx_trace(" %#" PRIx64, script[k]);
        }
        vx_trace(" -> lib %.17g ref %.17g (%" PRIu64 " draws)\n", x, r, used);
    }
    if (ran) {
        snprintf(rule, sizeof rule, "seq:%s:no-termination", s->name);
        FAIL(rule, "more than 20000 raw draws for one sample");
        return;
    }
    if (!in_support(s, x)) {
        snprintf(rule, sizeof rule, "seq:%s:outside-support:%s", s->name, isnan(x) ? "nan" : isinf(x) ? "infinite" : "out-of-range");
        FAIL(rule, "raw words %#" PRIx64 " %#" PRIx64 " ... give %.17g, outside the support", script[0], K > 1 ? script[1] : 0, x);
        return;
    }
    if (!isnan(mirror)) {
        const double centre = s->id == 1 ? s->a : 0.0;
        if (!(fabs((x - centre) + (mirror - centre)) <= 1e-12 * (fabs(x) + fabs(mirror) + 1.0))) {
            snprintf(rule, sizeof rule, "seq:%s:not-symmetric-under-sign-bit", s->name);
            FAIL(rule, "raw words %#" PRIx64 " %#" PRIx64 " ...: sample %.17g, with the sign bit of the first word flipped %.17g "
                 "(must be the mirror image)", script[0], K > 1 ? script[1] : 0, x, mirror);
            return;
        }
    }
    if (!isnan(r) && !runaway) {
        const bool same = (x == r) || fabs(x - r) <= 1e-12 * (fabs(x) + fabs(r));
        if (!same) {
            snprintf(rule, sizeof rule, "seq:%s:differs-from-textbook-construction", s->name);
            FAIL(rule, "raw words %#" PRIx64 " %#" PRIx64 " ...: library gives %.17g, the textbook construction from the same words %.17g",
                 script[0], K > 1 ? script[1] : 0, x, r);
        }
    }
}

static void run_one(void)
{
    if (!strcmp(mode, "tables")) run_tables();
    else if (!strcmp(mode, "lattice")) run_lattice();
    else if (!strcmp(mode, "aliasvec")) run_aliasvec();
    else if (!strcmp(mode, "zigslow")) run_zigslow();
    else if (!strcmp(mode, "history")) run_history();
    else run_seq();
}

static void (*fresh_fn)(void);
static void *fresh_tramp(void *a)
{
    (void)a;
    (*fresh_fn)();
    return NULL;
}

static void on_fresh_thread(void (*fn)(void))
{
    pthread_t th;
    fresh_fn = fn;
    if (pthread_create(&th, NULL, fresh_tramp, NULL) != 0) {
        (*fn)();
        return;
    }
    pthread_join(th, NULL);
}

static void ginit(void)
{
    mode = vx_opt("mode", "tables");
    build_omega();
    cmb_logger_flags_off(0x7FFFFFFFu);
}

int main(int argc, char **argv)
{
    struct vx_harness h = { "c16_dist", run_one, NULL, ginit };
    return vx_main(argc, argv, &h);
}
