/*
 * des.h - shared declarations of the DES driver (mode P): simulated processes
 * are interpreters that ask the explorer for their next operation; the real
 * dispatcher runs them; monitors (oracles) observe every call, return, event.
 */
#ifndef DES_H
#define DES_H

#include <inttypes.h>
#include <stdbool.h>
#include <stdint.h>
#include <stdio.h>
#include <stdlib.h>
#include <string.h>

#include "vx_explore.h"

#include "cmb_buffer.h"
#include "cmb_condition.h"
#include "cmb_event.h"
#include "cmb_logger.h"
#include "cmb_objectqueue.h"
#include "cmb_priorityqueue.h"
#include "cmb_process.h"
#include "cmb_resource.h"
#include "cmb_resourceguard.h"
#include "cmb_resourcepool.h"
#include "cmb_timeseries.h"
#include "cmb_wtdsummary.h"
#include "cmi_hashheap.h"
#include "cmi_mempool.h"
#include "cmi_process.h"
#include "cmi_slist.h"

#define MAXP 6
#define NRES 2
#define MAXMENU 64
#define MAXSCRIPT 16
#define MAXTIMERS 8
#define NENVEV 2

enum kind {
    K_HOLD, K_TADD, K_TSET, K_TCANCEL, K_TCLEAR, K_YIELD, K_RESUME, K_WAITP, K_WAITE,
    K_INT, K_STOP, K_STOPSELF, K_EXIT, K_RETURN, K_PRIO,
    K_RACQ, K_RPRE, K_RREL, K_PACQ, K_PPRE, K_PREL,
    K_BPUT, K_BGET, K_OQPUT, K_OQGET, K_PQPUT, K_PQGET, K_PQCANCEL, K_PQREPRIO,
    K_CWAIT, K_CSIG, K_SETX, K_CCANCEL, K_CREMOVE, K_CSUB, K_CUNSUB, K_CSUBB, K_CUNSUBB, K_TCLEARO, K_TADDO, K_CREMOVEB, K_CCANCELB, K_CWAITB,
    K_EVSCHED, K_EVCANCEL, K_RECON, K_RECOFF, K_RESTOP, K_REREC, K_START, K_NOP, NKINDS
};

struct opdef {
    char name[32];
    enum kind kind;
    int64_t a, b;
};

/* one library call made by a simulated process */
struct opcall {
    const struct opdef *od;
    int p;               /* caller */
    double t_call, t_ret;
    uint64_t ev_at_call; /* dispatcher event counter at call time */
    bool blocked;        /* other events ran between call and return */
    int64_t ret;
    uint64_t out;        /* out-parameter (amount, object token, handle) */
    uint64_t in;         /* in-parameter actually passed (amount, object token) */
    bool active;
    uint64_t seq;
};

enum pstate { PS_CREATED, PS_STARTPENDING, PS_ACTIVE, PS_ENDED };
enum endroute { ER_NONE, ER_RETURN, ER_EXIT, ER_STOPPED, ER_STOPSELF };

struct drv {
    int P;                      /* number of simulated processes */
    struct cmb_process *procp[MAXP];   /* process p is *D.procp[p], a slot of des_arena chosen at start-up (see "collide") */
    bool inited[MAXP];
    enum pstate pstate[MAXP];
    enum endroute endroute[MAXP];
    double t_end[MAXP];
    void *endval[MAXP];
    int incarnation[MAXP];
    int budget[MAXP];
    int step[MAXP];
    int64_t prio0[MAXP];
    struct opcall cur[MAXP];    /* call in progress (active) or last call */
    int running;                /* index of the process whose code runs, -1 = dispatcher */
    int last_ran;               /* the process that most recently ran code */
    uint64_t nevents;
    uint64_t ncalls;
    bool abandon;               /* stop the execution as soon as possible */
    /* driver bookkeeping of the valid-program model */
    bool res_belief[MAXP][NRES]; /* what p has been told: acquired and neither released nor told PREEMPTED */
    uint64_t pool_held[MAXP];
    uint64_t timers[MAXP][MAXTIMERS];
    int ntimers[MAXP];
    uint64_t pq_handle[MAXP];   /* last handle put by p */
    bool pq_handle_live[MAXP];
    uint64_t envev[NENVEV];
    bool resume_pending[MAXP];  /* an undelivered cmb_process_resume is addressed to p */
    int64_t X;                  /* harness variable for condition predicates */
    int rec_state;              /* 0 never recorded, 1 recording, 2 stopped */
    int sub_res;                /* the condition observes resource 0's guard: 0 no, 1 via guard register, 2 via condition subscribe */
    bool sub_pool;              /* the condition observes the pool's guard */
    bool sub_b;                 /* a second condition (nobody waits on it) observes resource 0's guard as well */
    bool sub_static;            /* the observer relations were set up before the run and no operation changes them */
    struct cmb_condition cond_b;
    /* objects */
    int nres;
    bool has_pool, has_buf, has_oq, has_pq, has_cond;
    struct cmb_resource res[NRES];
    struct cmb_resourcepool pool;
    struct cmb_buffer buf;
    struct cmb_objectqueue oq;
    struct cmb_priorityqueue pq;
    struct cmb_condition cond;
    uint64_t pool_cap, buf_cap, oq_cap, pq_cap;
    uint64_t next_token;
    /* a monitor saw something left behind by a finished call of p that might still resume p: the
     * process now only runs sentinel waits, and a violation is reported only if one of them is disturbed */
    struct {
        bool active;
        int confirmed;          /* violations reported while the sentinels ran */
        char sig[200];
        char detail[400];
    } residue[MAXP];
    uint64_t inert_residues;    /* residues whose sentinels all ended undisturbed */
};

extern struct drv D;

struct monitor {
    const char *name;
    void (*init)(void);                                   /* start of every execution */
    void (*on_call)(struct opcall *c);                    /* before the library call */
    void (*on_return)(struct opcall *c);                  /* after it returned */
    void (*on_body_enter)(int p);                         /* process function entered */
    void (*observe)(void);                                /* after every call and event */
    void (*on_event)(void);                               /* after every dispatcher event */
    void (*on_boundary)(bool quiescent);                  /* instant boundary / queue empty */
    void (*finish)(void);                                 /* end of execution */
    uint64_t (*hash)(void);                               /* monitor state for fingerprints */
};

#define VFAIL(...) des_fail(__VA_ARGS__)
void des_fail(const char *sig, const char *fmt, ...) __attribute__((format(printf, 2, 3)));
void des_residue(int p, const char *sig, const char *fmt, ...) __attribute__((format(printf, 3, 4)));
int des_pidx(const struct cmb_process *pp);
const char *des_signame(int64_t s);
bool des_in_guard(const struct cmb_resourceguard *g, int p);
int des_guard_count(const struct cmb_resourceguard *g);
extern struct cmi_hashheap *cmi_verif_event_queue(void);


/* Application-defined signals are "any 64-bit signed integer value": the driver's timers, resumes and interrupts use values
 * whose low 32 bits are all zero, values beyond +-2^40 and values next to the ends of the type, positive and negative,
 * so that every path a signal takes has to carry all 64 bits and may not look at its sign. */
static inline int64_t sig_timer(int p, int a)
{
    const int64_t k = 1000 + p * 10 + a;
    return (a & 1) ? (int64_t)((uint64_t)k << 32) : -((INT64_C(1) << 40) + k);
}
static inline int64_t sig_resume(int p)
{
    return INT64_MAX - 2000 - p;
}
static inline int64_t sig_interrupt(int p, int b)
{
    return (b & 1) ? INT64_MIN + 3000 + p * 10 + b : ((INT64_C(3000) + p * 10 + b) << 33) + 7;
}


/* the signal a timer carries: an application-defined one where the op says so (tadd1u) and, so that every alphabet
 * with timers has both kinds, for every timer armed by an odd-numbered process; the standard TIMEOUT otherwise */
#define des_timer_signal(p, od) (((od)->b || ((p) & 1)) ? sig_timer((p), (int)(od)->a) : CMB_PROCESS_TIMEOUT)

#define DES_NARENA 2048
extern struct cmb_process des_arena[DES_NARENA];
extern double des_tscale, des_t0;
/* the duration an operation name stands for */
#define des_dur(od) ((double)(od)->a * des_tscale)

#endif
