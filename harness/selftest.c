/* explorer self test: 3 points of arity 3, violation when choices are 2,1,2; crash when 1,1,1 */
#include "vx_explore.h"
#include <stdlib.h>
#include <stdio.h>
static void run_one(void)
{
    int a = vx_choose(3, "a");
    int b = vx_choose(3, "b");
    int c = vx_choose(3, "c");
    vx_state(vx_mix(vx_mix(a, b), c));
    vx_transition();
    vx_outcome(a * 9 + b * 3 + c);
    vx_trace("a=%d b=%d c=%d\n", a, b, c);
    if (a == 2 && b == 1 && c == 2) vx_violation("selftest:212", "a=%d b=%d c=%d", a, b, c);
    if (a == 1 && b == 1 && c == 1 && vx_opt_int("crash", 0)) { fprintf(stderr, "x\tAssert \"boom\" failed, source file t.c, seed 1\n"); abort(); }
    if (a == 1 && b == 2 && c == 1 && vx_opt_int("crash", 0)) { volatile int *p = 0; *p = 1; }
}
int main(int argc, char **argv)
{
    struct vx_harness h = { "selftest", run_one, NULL, NULL };
    return vx_main(argc, argv, &h);
}
