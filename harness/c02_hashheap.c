/*
 * C02 - the hashheap as a keyed priority queue, checked against a reference
 * model (unsorted array) after every operation of every operation sequence.
 *
 * options: exp=1|2|3  order=event|guard|holder|pq|default  keys=auto|caller|mixed
 *          depth=N  mode=seq|ramp
 */
#include <inttypes.h>
#include <math.h>
#include <stdio.h>
#include <stdlib.h>
#include <string.h>

#include "vx_explore.h"

#include "cmb_event.h"
#include "cmb_priorityqueue.h"
#include "cmb_resource.h"
#include "cmb_resourcepool.h"
#include "cmi_hashheap.h"

extern struct cmi_hashheap *cmi_verif_event_queue(void);

#define MAXLIVE 96
#define MAXDEAD 64

struct ent {
    uint64_t key;
    void *pl[4];
    double d;
    int64_t i;
    uint64_t seq; /* insertion order in the model */
};

static struct ent live[MAXLIVE];
static int nlive;
static uint64_t dead[MAXDEAD];
static int ndead;
static uint64_t seqno, last_auto;

static cmi_heap_compare_func *cmp;
static const char *ordname;
static bool cmp_is_order;
static int o_exp, o_depth;
static int keymode; /* 0 auto 1 caller 2 mixed */
static struct cmi_hashheap hh;

static double KD[4] = { 0.0, 1.0, 0.0, 2.0 };
static const int64_t KI[4] = { 0, 0, 1, -1 };

static uint64_t ckeys[5]; /* colliding caller keys */

static char pA, pB, pC;
#define TOK(n) ((void *)(uintptr_t)(0x1000u + (n)))

static void tag_of(const struct ent *e, struct cmi_heap_tag *t)
{
    memset(t, 0, sizeof *t);
    t->key = e->key;
    t->dsortkey = e->d;
    t->isortkey = e->i;
    memcpy(t->item, e->pl, sizeof t->item);
}

static bool independent_default;
static bool precedes(const struct ent *a, const struct ent *b)
{
    if (independent_default) {
        /* the default ordering is documented: increasing dsortkey, nothing else */
        return a->d < b->d;
    }
    struct cmi_heap_tag ta, tb;
    tag_of(a, &ta);
    tag_of(b, &tb);
    return (*cmp)(&ta, &tb);
}

static bool is_minimum(int m)
{
    for (int x = 0; x < nlive; x++) {
        if (x != m && precedes(&live[x], &live[m])) {
            return false;
        }
    }
    return true;
}

static int find_live(uint64_t key)
{
    for (int x = 0; x < nlive; x++) {
        if (live[x].key == key) {
            return x;
        }
    }
    return -1;
}

static void model_remove(int x)
{
    if (ndead < MAXDEAD) {
        dead[ndead++] = live[x].key;
    }
    live[x] = live[nlive - 1];
    nlive--;
}

static void add_dead_unique(void)
{
    /* a dead key may become live again (caller-supplied keys are re-used) */
    int w = 0;
    for (int k = 0; k < ndead; k++) {
        if (find_live(dead[k]) < 0) {
            dead[w++] = dead[k];
        }
    }
    ndead = w;
}

static int by_seq_rank(int rank)
{
    /* index of the live entry with the rank-th smallest seq */
    int idx[MAXLIVE];
    for (int x = 0; x < nlive; x++) {
        idx[x] = x;
    }
    for (int a = 0; a < nlive; a++) {
        for (int b = a + 1; b < nlive; b++) {
            if (live[idx[b]].seq < live[idx[a]].seq) {
                int t = idx[a];
                idx[a] = idx[b];
                idx[b] = t;
            }
        }
    }
    return idx[rank];
}

static bool pat_match(const struct ent *e, const void *v[4])
{
    for (int k = 0; k < 4; k++) {
        if (v[k] != CMI_ANY_ITEM && v[k] != e->pl[k]) {
            return false;
        }
    }
    return true;
}

static const char *opname = "init";

#define FAIL(rule, ...) vx_violation(sigbuf(rule), __VA_ARGS__)
static char g_sig[160];
static const char *sigbuf(const char *rule)
{
    snprintf(g_sig, sizeof g_sig, "c02:%s:%s:order=%s", rule, opname, ordname);
    return g_sig;
}

static void check_all(void)
{
    const struct cmi_hashheap *hp = &hh;
    if (cmi_hashheap_count(hp) != (uint64_t)nlive) {
        FAIL("count", "count %" PRIu64 " model %d", cmi_hashheap_count(hp), nlive);
        return;
    }
    if (cmi_hashheap_is_empty(hp) != (nlive == 0)) {
        FAIL("is-empty", "is_empty disagrees with model (%d live)", nlive);
    }
    if (hp->heap_size == 0 || (hp->heap_size & (hp->heap_size - 1)) != 0
        || hp->hash_size != 2 * hp->heap_size || hp->heap_size != (1ull << hp->heap_exp_cur)
        || hp->heap_count > hp->heap_size) {
        FAIL("sizes", "heap_size %" PRIu64 " hash_size %" PRIu64 " exp %u count %" PRIu64,
             hp->heap_size, hp->hash_size, hp->heap_exp_cur, hp->heap_count);
        return;
    }
    /* structure */
    for (uint64_t j = 1; j <= hp->heap_count; j++) {
        const struct cmi_heap_tag *t = &hp->heap[j];
        const int x = find_live(t->key);
        if (x < 0) {
            FAIL("heap-has-dead-key", "heap[%" PRIu64 "] key %" PRIu64 " not live in model", j, t->key);
            return;
        }
        if (t->hash_index >= hp->hash_size || hp->hash_map[t->hash_index].key != t->key
            || hp->hash_map[t->hash_index].heap_index != j) {
            FAIL("backpointer", "heap[%" PRIu64 "] key %" PRIu64 " hash_index %" PRIu64 " does not point back",
                 j, t->key, t->hash_index);
            return;
        }
        for (uint64_t j2 = j + 1; j2 <= hp->heap_count; j2++) {
            if (hp->heap[j2].key == t->key) {
                FAIL("duplicate-key", "key %" PRIu64 " twice in heap", t->key);
                return;
            }
        }
        if (cmp_is_order && j >= 2 && (*cmp)(t, &hp->heap[j >> 1])) {
            FAIL("heap-order", "heap[%" PRIu64 "] precedes its parent", j);
            return;
        }
        if (memcmp(t->item, live[x].pl, sizeof t->item) != 0 || t->dsortkey != live[x].d
            || t->isortkey != live[x].i) {
            FAIL("payload-detached", "key %" PRIu64 " carries wrong payload or sort keys", t->key);
            return;
        }
    }
    /* lookups by key */
    for (int x = 0; x < nlive; x++) {
        const uint64_t k = live[x].key;
        if (!cmi_hashheap_is_enqueued(hp, k)) {
            FAIL("lookup-live", "live key %" PRIu64 " not found", k);
            return;
        }
        void **it = cmi_hashheap_item(hp, k);
        if (memcmp(it, live[x].pl, 4 * sizeof(void *)) != 0) {
            FAIL("item", "item(%" PRIu64 ") returns wrong payload", k);
            return;
        }
        if (cmi_hashheap_dkey(hp, k) != live[x].d || cmi_hashheap_ikey(hp, k) != live[x].i) {
            FAIL("sortkeys", "dkey/ikey(%" PRIu64 ") wrong", k);
            return;
        }
    }
    for (int k = 0; k < ndead; k++) {
        if (find_live(dead[k]) < 0 && cmi_hashheap_is_enqueued(hp, dead[k])) {
            FAIL("lookup-dead", "removed key %" PRIu64 " still reported enqueued", dead[k]);
            return;
        }
    }
    if (cmi_hashheap_is_enqueued(hp, 0xdeadbeefcafeull)) {
        FAIL("lookup-never", "never-issued key reported enqueued");
    }
    /* peek */
    void **pk = cmi_hashheap_peek_item(hp);
    if ((pk == NULL) != (nlive == 0)) {
        FAIL("peek-null", "peek_item NULL-ness wrong");
        return;
    }
    if (nlive > 0) {
        int m = -1;
        for (int x = 0; x < nlive; x++) {
            if (live[x].pl[0] == pk[0]) {
                m = x;
            }
        }
        if (m < 0) {
            FAIL("peek-unknown", "peek_item returns an unknown payload");
            return;
        }
        if (cmp_is_order && !is_minimum(m)) {
            FAIL("peek-not-min", "peek_item returns key %" PRIu64 " which is not a minimum", live[m].key);
        }
        if (cmi_hashheap_peek_dkey(hp) != live[m].d || cmi_hashheap_peek_ikey(hp) != live[m].i) {
            FAIL("peek-keys", "peek_dkey/ikey disagree with peek_item");
        }
    }
    /* patterns */
    const void *pats[4][4] = {
        { CMI_ANY_ITEM, &pA, CMI_ANY_ITEM, CMI_ANY_ITEM },
        { CMI_ANY_ITEM, &pB, &pC, CMI_ANY_ITEM },
        { CMI_ANY_ITEM, CMI_ANY_ITEM, CMI_ANY_ITEM, CMI_ANY_ITEM },
        { nlive ? live[0].pl[0] : TOK(999), CMI_ANY_ITEM, CMI_ANY_ITEM, NULL },
    };
    for (int p = 0; p < 4; p++) {
        uint64_t want = 0;
        for (int x = 0; x < nlive; x++) {
            want += pat_match(&live[x], pats[p]);
        }
        const uint64_t got = cmi_hashheap_pattern_count(hp, pats[p][0], pats[p][1], pats[p][2], pats[p][3]);
        if (got != want) {
            FAIL("pattern-count", "pattern %d count %" PRIu64 " model %" PRIu64, p, got, want);
        }
        const uint64_t f = cmi_hashheap_pattern_find(hp, pats[p][0], pats[p][1], pats[p][2], pats[p][3]);
        const int fx = f ? find_live(f) : -1;
        if ((want == 0) != (f == 0) || (f != 0 && (fx < 0 || !pat_match(&live[fx], pats[p])))) {
            FAIL("pattern-find", "pattern %d find returns %" PRIu64 " (model has %" PRIu64 " matches)", p, f, want);
        }
    }
    /* fingerprint of the abstract state */
    uint64_t fp = vx_mix(hp->heap_size, (uint64_t)nlive);
    uint64_t acc = 0;
    for (int x = 0; x < nlive; x++) {
        uint64_t e = vx_mix(live[x].key, (uint64_t)live[x].i);
        e = vx_mix(e, (uint64_t)(live[x].d * 4));
        acc += vx_mix(e, 99);
    }
    vx_state(vx_mix(fp, acc));
}

static void do_enqueue(uint64_t key, int k)
{
    struct ent e;
    const uint64_t n = ++seqno;
    e.pl[0] = TOK(n);
    e.pl[1] = (n & 1) ? (void *)&pA : (void *)&pB;
    e.pl[2] = &pC;
    e.pl[3] = (n % 3 == 0) ? NULL : TOK(n + 500);
    e.d = KD[k];
    e.i = KI[k];
    e.seq = n;
    const uint64_t r = cmi_hashheap_enqueue(&hh, e.pl[0], e.pl[1], e.pl[2], e.pl[3], key, e.d, e.i);
    vx_transition();
    vx_outcome(r);
    if (key != 0 && r != key) {
        FAIL("enqueue-key", "enqueue with key %" PRIu64 " returned %" PRIu64, key, r);
    }
    if (key == 0) {
        if (r == 0 || find_live(r) >= 0 || (keymode == 0 && r <= last_auto)) {
            FAIL("enqueue-autokey", "automatic key %" PRIu64 " is zero, live, or not fresh (last %" PRIu64 ")",
                 r, last_auto);
        }
        last_auto = r;
    }
    e.key = r;
    if (nlive < MAXLIVE) {
        live[nlive++] = e;
    }
    add_dead_unique();
}

static void do_dequeue(void)
{
    void **it = cmi_hashheap_dequeue(&hh);
    vx_transition();
    if ((it == NULL) != (nlive == 0)) {
        FAIL("dequeue-null", "dequeue NULL-ness wrong (%d live)", nlive);
        return;
    }
    if (it == NULL) {
        return;
    }
    int m = -1;
    for (int x = 0; x < nlive; x++) {
        if (live[x].pl[0] == it[0]) {
            m = x;
        }
    }
    if (m < 0) {
        FAIL("dequeue-unknown", "dequeue returned an unknown payload");
        return;
    }
    vx_outcome(live[m].key);
    if (memcmp(it, live[m].pl, 4 * sizeof(void *)) != 0) {
        FAIL("dequeue-payload", "dequeue returned a torn payload");
    }
    if (cmp_is_order && !is_minimum(m)) {
        FAIL("dequeue-not-min", "dequeue returned key %" PRIu64 " (d=%g i=%" PRIi64 ") which is not a minimum",
             live[m].key, live[m].d, live[m].i);
    }
    model_remove(m);
}

static void do_remove(uint64_t key)
{
    const int x = find_live(key);
    const bool r = cmi_hashheap_remove(&hh, key);
    vx_transition();
    vx_outcome(r);
    if (r != (x >= 0)) {
        FAIL("remove-ret", "remove(%" PRIu64 ") returned %d, model live=%d", key, r, x >= 0);
    }
    if (x >= 0) {
        model_remove(x);
    }
}

static void do_reprio(int x, int k)
{
    cmi_hashheap_reprioritize(&hh, live[x].key, KD[k], KI[k]);
    vx_transition();
    live[x].d = KD[k];
    live[x].i = KI[k];
}

static void do_pattern_cancel(const void *v0, const void *v1)
{
    const void *v[4] = { v0, v1, CMI_ANY_ITEM, CMI_ANY_ITEM };
    uint64_t want = 0;
    for (int x = nlive - 1; x >= 0; x--) {
        if (pat_match(&live[x], v)) {
            want++;
            model_remove(x);
        }
    }
    const uint64_t got = cmi_hashheap_pattern_cancel(&hh, v[0], v[1], v[2], v[3]);
    vx_transition();
    vx_outcome(got);
    if (got != want) {
        FAIL("pattern-cancel-ret", "pattern_cancel returned %" PRIu64 ", model %" PRIu64, got, want);
    }
}

enum { OP_ENQ_AUTO0, OP_ENQ_AUTO1, OP_ENQ_AUTO2, OP_ENQ_AUTO3, OP_ENQ_C0, OP_ENQ_C1, OP_ENQ_C2,
       OP_ENQ_C3, OP_ENQ_C4, OP_DEQ, OP_REM_OLD, OP_REM_NEW, OP_REM_MID, OP_REM_DEAD, OP_REP_OLD_K0,
       OP_REP_OLD_K3, OP_REP_NEW_K0, OP_REP_NEW_K2, OP_PC_A, OP_PC_TOK, OP_PC_ALL, OP_CLEAR,
       OP_RESET, OP_MANY, NOPS };
static const char *OPN[NOPS] = { "enq-auto", "enq-auto", "enq-auto", "enq-auto", "enq-caller",
    "enq-caller", "enq-caller", "enq-caller", "enq-caller", "dequeue", "remove", "remove", "remove",
    "remove-dead", "reprioritize", "reprioritize", "reprioritize", "reprioritize",
    "pattern-cancel", "pattern-cancel", "pattern-cancel", "clear", "reset", "enq-many" };

static void fresh(void)
{
    nlive = 0;
    ndead = 0;
    seqno = 0;
    last_auto = 0;
    memset(&hh, 0, sizeof hh);
    if (vx_opt_int("reuse", 1)) {
        /* an earlier life of the same object with another size and ordering: grown, partly emptied, cleared, terminated */
        cmi_hashheap_initialize(&hh, 1, NULL);
        uint64_t ks[9];
        for (int k = 0; k < 9; k++) {
            ks[k] = cmi_hashheap_enqueue(&hh, (void *)(uintptr_t)(0x900 + k), NULL, NULL, NULL, 0, (double)((k * 5) % 7), (int64_t)k);
        }
        (void)cmi_hashheap_remove(&hh, ks[3]);
        (void)cmi_hashheap_dequeue(&hh);
        cmi_hashheap_clear(&hh);
        (void)cmi_hashheap_enqueue(&hh, (void *)(uintptr_t)0x999, NULL, NULL, NULL, 0, 1.0, 1);
        cmi_hashheap_terminate(&hh);
    }
    cmi_hashheap_initialize(&hh, (uint16_t)o_exp, cmp);
    opname = "init";
    /* the object under test may also have a past of its own: grown beyond its initial size and reset, and after that
     * used within the initial size and cleared; what follows must behave as on a new object, and the keys of
     * the past must stay dead */
    const int life = vx_opt_int("lives", 1) ? vx_choose_free(3, "life") : 0;
    if (life >= 1) {
        opname = "earlier-life";
        const int cnt = (1 << o_exp) + 1;
        for (int k = 0; k < cnt; k++) {
            do_enqueue(keymode == 1 ? (uint64_t)(0x7000 + 13 * k) : 0, k % 4);
        }
        do_remove(live[by_seq_rank(nlive / 2)].key);
        cmi_hashheap_reset(&hh);
        while (nlive) {
            model_remove(nlive - 1);
        }
        if (life == 2) {
            do_enqueue(keymode == 0 ? 0 : (uint64_t)0x7100, 1);
            do_enqueue(keymode == 1 ? (uint64_t)0x7200 : 0, 2);
            cmi_hashheap_clear(&hh);
            while (nlive) {
                model_remove(nlive - 1);
            }
        }
        opname = "init";
    }
}

static void run_seq(void)
{
    fresh();
    check_all();
    for (int step = 0; step < o_depth; step++) {
        int menu[NOPS], nm = 0;
        for (int op = 0; op < NOPS; op++) {
            bool en = true;
            if (op <= OP_ENQ_AUTO3) {
                en = (keymode != 1) && nlive < MAXLIVE - 8;
            }
            else if (op <= OP_ENQ_C4) {
                en = (keymode != 0) && find_live(ckeys[op - OP_ENQ_C0]) < 0;
            }
            else if (op == OP_REM_OLD || op == OP_REP_OLD_K0 || op == OP_REP_OLD_K3 || op == OP_PC_TOK) {
                en = nlive >= 1;
            }
            else if (op == OP_REM_NEW || op == OP_REP_NEW_K0 || op == OP_REP_NEW_K2) {
                en = nlive >= 2;
            }
            else if (op == OP_REM_MID) {
                en = nlive >= 3;
            }
            else if (op == OP_REM_DEAD) {
                en = true;
            }
            else if (op == OP_MANY) {
                en = (keymode != 1) && nlive < MAXLIVE - 8;
            }
            if (en) {
                menu[nm++] = op;
            }
        }
        const int op = menu[vx_choose_free(nm, "op")];
        opname = OPN[op];
        vx_trace("step %d: op %d (%s), %d live, heap_size %" PRIu64 "\n", step, op, opname, nlive,
                 hh.heap_size);
        switch (op) {
        case OP_ENQ_AUTO0: case OP_ENQ_AUTO1: case OP_ENQ_AUTO2: case OP_ENQ_AUTO3:
            do_enqueue(0, op - OP_ENQ_AUTO0);
            break;
        case OP_ENQ_C0: case OP_ENQ_C1: case OP_ENQ_C2: case OP_ENQ_C3: case OP_ENQ_C4:
            do_enqueue(ckeys[op - OP_ENQ_C0], (int)(seqno % 4));
            break;
        case OP_DEQ:
            do_dequeue();
            break;
        case OP_REM_OLD:
            do_remove(live[by_seq_rank(0)].key);
            break;
        case OP_REM_NEW:
            do_remove(live[by_seq_rank(nlive - 1)].key);
            break;
        case OP_REM_MID:
            do_remove(live[by_seq_rank(nlive / 2)].key);
            break;
        case OP_REM_DEAD:
            do_remove(ndead ? dead[0] : 0xabcdefull);
            break;
        case OP_REP_OLD_K0:
            do_reprio(by_seq_rank(0), 0);
            break;
        case OP_REP_OLD_K3:
            do_reprio(by_seq_rank(0), 3);
            break;
        case OP_REP_NEW_K0:
            do_reprio(by_seq_rank(nlive - 1), 0);
            break;
        case OP_REP_NEW_K2:
            do_reprio(by_seq_rank(nlive - 1), 2);
            break;
        case OP_PC_A:
            do_pattern_cancel(CMI_ANY_ITEM, &pA);
            break;
        case OP_PC_TOK:
            do_pattern_cancel(live[by_seq_rank(0)].pl[0], CMI_ANY_ITEM);
            break;
        case OP_PC_ALL:
            do_pattern_cancel(CMI_ANY_ITEM, CMI_ANY_ITEM);
            break;
        case OP_CLEAR:
            cmi_hashheap_clear(&hh);
            vx_transition();
            while (nlive) {
                model_remove(nlive - 1);
            }
            break;
        case OP_RESET:
            cmi_hashheap_reset(&hh);
            vx_transition();
            while (nlive) {
                model_remove(nlive - 1);
            }
            if (hh.heap_size != (1ull << o_exp)) {
                FAIL("reset-size", "heap_size %" PRIu64 " after reset, initial exponent %d", hh.heap_size, o_exp);
            }
            break;
        case OP_MANY:
            for (int k = 0; k < 5; k++) {
                do_enqueue(0, (int)((seqno + 1) % 4));
            }
            break;
        }
        check_all();
    }
    /* drain: the whole content must come out in comparator order */
    opname = "drain";
    while (nlive > 0 && vx_violations_this_exec() == 0) {
        do_dequeue();
        check_all();
    }
    cmi_hashheap_terminate(&hh);
}

static void run_ramp(void)
{
    /* tombstone ramps: enqueue n, remove a pattern, re-enqueue n, drain */
    fresh();
    const int n = 1 + vx_choose_free(40, "n");
    const int pat = vx_choose_free(4, "pattern");
    const int kk = vx_choose_free(2, "keys");
    opname = "ramp-enqueue";
    uint64_t keys[48];
    for (int k = 0; k < n; k++) {
        do_enqueue(kk ? (uint64_t)(0x5000 + 977 * k) : 0, k % 4);
        keys[k] = live[nlive - 1].key;
        check_all();
    }
    opname = "ramp-remove";
    for (int k = 0; k < n; k++) {
        const bool rm = (pat == 0) ? (k % 2 == 0) : (pat == 1) ? (k < n / 2) : (pat == 2) ? (k != n - 1) : true;
        if (rm) {
            do_remove(keys[k]);
            check_all();
        }
    }
    opname = "ramp-reenqueue";
    for (int k = 0; k < n; k++) {
        if (kk && find_live(keys[k]) >= 0) {
            continue;
        }
        do_enqueue(kk ? keys[k] : 0, (k + 1) % 4);
        check_all();
    }
    opname = "drain";
    while (nlive > 0 && vx_violations_this_exec() == 0) {
        do_dequeue();
        check_all();
    }
    cmi_hashheap_terminate(&hh);
}

static void run_one(void)
{
    if (!strcmp(vx_opt("mode", "seq"), "ramp")) {
        run_ramp();
    }
    else {
        run_seq();
    }
}

static struct cmb_resource g_res;
static struct cmb_resourcepool g_pool;
static struct cmb_priorityqueue g_pq;

static void ginit(void)
{
    o_exp = (int)vx_opt_int("exp", 3);
    o_depth = (int)vx_opt_int("depth", 4);
    const char *km = vx_opt("keys", "auto");
    keymode = !strcmp(km, "auto") ? 0 : !strcmp(km, "caller") ? 1 : 2;
    ordname = vx_opt("order", "default");
    cmb_logger_flags_off(0x7FFFFFFFu);
    cmb_event_queue_initialize(0.0);
    cmb_resource_initialize(&g_res, "r");
    cmb_resourcepool_initialize(&g_pool, "p", 3);
    cmb_priorityqueue_initialize(&g_pq, "q", 4);
    if (!strcmp(ordname, "event")) {
        cmp = cmi_verif_event_queue()->heap_compare;
    }
    else if (!strcmp(ordname, "guard")) {
        cmp = g_res.guard.priority_queue.heap_compare;
    }
    else if (!strcmp(ordname, "holder")) {
        cmp = g_pool.holders.heap_compare;
    }
    else if (!strcmp(ordname, "pq")) {
        cmp = g_pq.queue.heap_compare;
    }
    else {
        /* default: obtain the library's own default comparator */
        struct cmi_hashheap t;
        memset(&t, 0, sizeof t);
        cmi_hashheap_initialize(&t, 1, NULL);
        cmp = t.heap_compare;
        cmi_hashheap_terminate(&t);
    }
    /* colliding caller keys: 3 keys hashing to the LAST slot of every map size up to
     * 2^7 (top 7 bits of the Fibonacci product all ones: probe wraps to slot 0), and 2 keys
     * hashing to slot 0 (adjacent after the wrap) */
    int n1 = 0, n0 = 0;
    for (uint64_t k = 0x10001; n1 < 3 || n0 < 2; k++) {
        const uint64_t top = (k * UINT64_C(11400714819323198485)) >> 57;
        if (top == 127 && n1 < 3) {
            ckeys[n1++] = k;
        }
        else if (top == 0 && n0 < 2) {
            ckeys[3 + n0++] = k;
        }
    }
    if (vx_opt_int("nearkeys", 0)) {
        /* sort keys that differ in the last place only: 0.3 and 0.1 + 0.2, 1 and the next number after it */
        volatile double a = 0.1, b = 0.2;
        KD[0] = 0.3;
        KD[1] = a + b;
        KD[2] = 1.0;
        KD[3] = nextafter(1.0, 2.0);
        independent_default = !strcmp(ordname, "default");
    }
    if (vx_opt_int("ekeys", 0)) {
        /* caller-supplied keys at the ends of the key range: the largest two keys, and a small one that the
         * generated series reaches while it is still live */
        ckeys[1] = UINT64_MAX - 1;
        ckeys[2] = UINT64_MAX;
        ckeys[4] = 2;
    }
    /* is the comparator a strict weak order on the tag alphabet? */
    cmp_is_order = true;
    struct cmi_heap_tag t[32];
    int nt = 0;
    for (int k = 0; k < 4; k++) {
        for (int kk = 0; kk < 3; kk++) {
            memset(&t[nt], 0, sizeof t[nt]);
            t[nt].dsortkey = KD[k];
            t[nt].isortkey = KI[k];
            t[nt].key = (kk == 0) ? 3 : (kk == 1) ? 7 : ckeys[0];
            nt++;
        }
    }
    for (int a = 0; a < nt && cmp_is_order; a++) {
        if ((*cmp)(&t[a], &t[a])) {
            cmp_is_order = false;
        }
        for (int b = 0; b < nt && cmp_is_order; b++) {
            if ((*cmp)(&t[a], &t[b]) && (*cmp)(&t[b], &t[a])) {
                cmp_is_order = false;
            }
            for (int c = 0; c < nt && cmp_is_order; c++) {
                if ((*cmp)(&t[a], &t[b]) && (*cmp)(&t[b], &t[c]) && !(*cmp)(&t[a], &t[c])) {
                    cmp_is_order = false;
                }
                /* transitivity of incomparability */
                const bool iab = !(*cmp)(&t[a], &t[b]) && !(*cmp)(&t[b], &t[a]);
                const bool ibc = !(*cmp)(&t[b], &t[c]) && !(*cmp)(&t[c], &t[b]);
                const bool iac = !(*cmp)(&t[a], &t[c]) && !(*cmp)(&t[c], &t[a]);
                if (iab && ibc && !iac) {
                    cmp_is_order = false;
                }
            }
        }
    }
}

static void run_wrapper(void)
{
    if (!cmp_is_order) {
        opname = "precheck";
        FAIL("order-not-strict-weak", "ordering function '%s' is not a strict weak order on the tag "
             "alphabet (asymmetry or transitivity fails): 'the minimum' is undefined; only the map half is checked",
             ordname);
    }
    run_one();
}

int main(int argc, char **argv)
{
    struct vx_harness h = { "c02_hashheap", run_wrapper, NULL, ginit };
    return vx_main(argc, argv, &h);
}
