/*
 * C20 - objects from a cmi_mempool are 8-byte aligned, disjoint, stable, never
 * handed out twice while live, for any population (across chunk expansions and
 * growth of the chunk list itself).
 *
 * options: objsz=N objnum=N mode=seq|ramp|static|experiment depth=N target=N
 */
#include <inttypes.h>
#include <pthread.h>
#include <stdio.h>
#include <stdlib.h>
#include <string.h>

#include "vx_explore.h"

#include "cmb_logger.h"
#include "cmi_mempool.h"

#define MAXLIVE 40000

struct lv { unsigned char *p; uint64_t stamp; };
static struct lv *live;
static int nlive;
static uint64_t nstamp;
static size_t objsz;
static bool g_sparse;
static uint64_t objnum;
static const char *opname = "";
static struct cmi_mempool mp;
static struct cmi_mempool *P;

static char g_sig[160];
static const char *sigbuf(const char *rule)
{
    snprintf(g_sig, sizeof g_sig, "c20:%s:%s:objsz=%zu", rule, opname, objsz);
    return g_sig;
}
#define FAIL(rule, ...) vx_violation(sigbuf(rule), __VA_ARGS__)

static void fill(unsigned char *p, uint64_t stamp)
{
    for (size_t k = 0; k + 8 <= objsz; k += 8) {
        if (g_sparse && k >= 64 && k + 64 < objsz) {
            k = objsz - 64 - 8; /* very large objects: only the first and the last 64 bytes are written and compared */
            continue;
        }
        const uint64_t v = stamp * 0x9e3779b97f4a7c15ull + k;
        memcpy(p + k, &v, 8);
    }
}

static bool intact(const unsigned char *p, uint64_t stamp)
{
    for (size_t k = 0; k + 8 <= objsz; k += 8) {
        if (g_sparse && k >= 64 && k + 64 < objsz) {
            k = objsz - 64 - 8;
            continue;
        }
        const uint64_t v = stamp * 0x9e3779b97f4a7c15ull + k;
        if (memcmp(p + k, &v, 8) != 0) {
            return false;
        }
    }
    return true;
}

static void do_alloc(void)
{
    opname = "alloc";
    unsigned char *p = cmi_mempool_alloc(P);
    vx_transition();
    if (p == NULL) {
        FAIL("null", "alloc returned NULL");
        return;
    }
    if (((uintptr_t)p & 7u) != 0) {
        FAIL("misaligned", "alloc returned %p", (void *)p);
        return;
    }
    /* disjoint from every live object (populations here are small enough for a scan) */
    for (int k = 0; k < nlive; k++) {
        if (p < live[k].p + objsz && live[k].p < p + objsz) {
            FAIL("overlap", "alloc returned %p which overlaps live object %p (%d live)", (void *)p,
                 (void *)live[k].p, nlive);
            return;
        }
    }
    if (nlive < MAXLIVE) {
        live[nlive].p = p;
        live[nlive].stamp = ++nstamp;
        fill(p, nstamp);
        nlive++;
    }
}

static void do_free(int idx)
{
    opname = "free";
    if (!intact(live[idx].p, live[idx].stamp)) {
        FAIL("contents-changed", "object %p allocated as #%" PRIu64 " no longer holds what was written to it",
             (void *)live[idx].p, live[idx].stamp);
        return;
    }
    memset(live[idx].p, 0xEE, g_sparse ? 64 : objsz);
    cmi_mempool_free(P, live[idx].p);
    vx_transition();
    memmove(&live[idx], &live[idx + 1], (size_t)(nlive - idx - 1) * sizeof live[0]);
    nlive--;
}

static void check_all_intact(void)
{
    opname = "final";
    for (int k = 0; k < nlive; k++) {
        if (!intact(live[k].p, live[k].stamp)) {
            FAIL("contents-changed", "live object %p (#%" PRIu64 ") was overwritten (%d live)", (void *)live[k].p,
                 live[k].stamp, nlive);
            return;
        }
    }
}

static void state_fp(void)
{
    vx_state(vx_mix(vx_mix((uint64_t)nlive, P->chunk_list_cnt), nstamp));
    vx_outcome((uint64_t)nlive * 1000003u + P->chunk_list_cnt);
}

static void fresh(void)
{
    nlive = 0;
    nstamp = 0;
    memset(&mp, 0, sizeof mp);
    P = &mp;
    if (vx_opt_int("reuse", 1)) {
        /* a first life with another geometry: the same pool object is used, terminated and initialized again,
         * as a program does that reuses its pools (deterministic: the same in every execution) */
        cmi_mempool_initialize(P, 16, 4);
        void *tmp[9];
        for (int k = 0; k < 9; k++) {
            tmp[k] = cmi_mempool_alloc(P);
        }
        cmi_mempool_free(P, tmp[3]);
        cmi_mempool_free(P, tmp[7]);
        cmi_mempool_terminate(P);
    }
    cmi_mempool_initialize(P, objsz, objnum);
}

static void step_choice(int c)
{
    if (c == 0 || nlive == 0) {
        do_alloc();
    }
    else if (c == 1) {
        do_free(0);
    }
    else if (c == 2) {
        do_free(nlive - 1);
    }
    else {
        do_free(nlive / 2);
    }
}

static void run_seq(void)
{
    fresh();
    const int depth = (int)vx_opt_int("depth", 8);
    for (int s = 0; s < depth && vx_violations_this_exec() == 0; s++) {
        const int c = vx_choose_free(nlive ? 4 : 1, "op");
        step_choice(c);
        state_fp();
    }
    check_all_intact();
    cmi_mempool_terminate(P);
}

static void run_ramp(void)
{
    /* allocate up to `target` objects; at every step a deviation may free instead */
    if (g_sparse) {
        /* a chunk of several GiB: where the environment cannot map two of them (address-space or overcommit limits) the
         * ramp is not run - that says nothing about the library, and is visible in the evidence as zero transitions */
        void *probe1 = NULL, *probe2 = NULL;
        const size_t chunk = objsz * (size_t)objnum;
        const bool ok = posix_memalign(&probe1, 4096, chunk) == 0 && probe1 != NULL
                        && posix_memalign(&probe2, 4096, chunk) == 0 && probe2 != NULL;
        free(probe1);
        free(probe2);
        if (!ok) {
            vx_trace("ramp skipped: cannot map two chunks of %zu bytes\n", chunk);
            vx_outcome(0);
            return;
        }
    }
    fresh();
    const int target = (int)vx_opt_int("target", 66);
    int guard = 0;
    const bool nochoice = vx_opt_int("nochoice", 0) != 0;
    if (nochoice) {
        (void)vx_choose_free(1, "ramp");
    }
    while (nlive < target && vx_violations_this_exec() == 0 && guard++ < 4 * target) {
        const int c = nochoice ? ((guard % 11 == 10) ? 3 : 0) : vx_choose(nlive ? 4 : 1, "op");
        step_choice(c);
        if ((guard & 15) == 0) {
            state_fp();
        }
    }
    state_fp();
    check_all_intact();
    /* free everything in a scrambled order and allocate again: reuse must not hand out a live object */
    opname = "refill";
    for (int k = 0; k < 8 && nlive > 1 && vx_violations_this_exec() == 0; k++) {
        do_free((k * 7) % nlive);
    }
    for (int k = 0; k < 8 && vx_violations_this_exec() == 0; k++) {
        do_alloc();
    }
    check_all_intact();
    cmi_mempool_terminate(P);
}

/* a statically initialised thread-local pool, used and cleaned up on a second thread */
static CMB_THREAD_LOCAL struct cmi_mempool tl_pool = CMI_MEMPOOL_STATIC_INIT(24u, 100u);
extern void cmi_mempool_cleanup(void *arg);

static void *static_thread(void *arg)
{
    (void)arg;
    P = &tl_pool;
    objsz = 24;
    nlive = 0;
    nstamp = 0;
    const int target = (int)vx_opt_int("target", 400);
    for (int k = 0; k < target && vx_violations_this_exec() == 0; k++) {
        do_alloc();
        if (k % 5 == 4) {
            do_free(nlive / 2);
        }
    }
    check_all_intact();
    state_fp();
    while (nlive > 0 && vx_violations_this_exec() == 0) {
        do_free(nlive - 1);
    }
    cmi_mempool_cleanup(NULL);
    if (tl_pool.chunk_list != NULL) {
        opname = "cleanup";
        FAIL("cleanup", "thread-local pool still owns its chunk list after cmi_mempool_cleanup");
    }
    return NULL;
}

static void run_static(void)
{
    (void)vx_choose_free(1, "static");
    pthread_t th;
    pthread_create(&th, NULL, static_thread, NULL);
    pthread_join(th, NULL);
}

/* objects of a statically initialised pool that are live on the calling thread when it runs an experiment (whose
 * worker threads use and clean up their own instances of the same thread-local pool) stay what they are, and what
 * the caller allocates afterwards is distinct from them */
extern void cimba_run_experiment(void *your_experiment_array, uint64_t num_trials, size_t trial_struct_size,
                                 void (*your_trial_func)(void *your_trial_struct));
struct xt { int ok; };

static void xt_trial(void *vp)
{
    struct xt *t = vp;
    unsigned char *o[12];
    t->ok = 1;
    for (int k = 0; k < 12; k++) {
        o[k] = cmi_mempool_alloc(&tl_pool);
        memset(o[k], 0x40 + k, 24);
    }
    for (int k = 0; k < 12; k++) {
        for (int b = 0; b < 24; b++) {
            t->ok &= o[k][b] == 0x40 + k;
        }
        cmi_mempool_free(&tl_pool, o[k]);
    }
}

static int xt_trials;

static void *experiment_thread(void *arg)
{
    (void)arg;
    P = &tl_pool;
    objsz = 24;
    nlive = 0;
    nstamp = 0;
    const int target = (int)vx_opt_int("target", 150);
    for (int k = 0; k < target && vx_violations_this_exec() == 0; k++) {
        do_alloc();
    }
    struct xt arr[8];
    memset(arr, 0, sizeof arr);
    opname = "experiment";
    cimba_run_experiment(arr, (uint64_t)xt_trials, sizeof arr[0], xt_trial);
    for (int k = 0; k < xt_trials; k++) {
        if (arr[k].ok != 1) {
            FAIL("trial-objects", "trial %d of %d: objects of the worker's own pool instance did not keep their contents", k, xt_trials);
        }
    }
    check_all_intact();
    for (int k = 0; k < target && vx_violations_this_exec() == 0; k++) {
        do_alloc();
        if (k % 7 == 6) {
            do_free(nlive / 3);
        }
    }
    check_all_intact();
    state_fp();
    while (nlive > 0 && vx_violations_this_exec() == 0) {
        do_free(nlive - 1);
    }
    cmi_mempool_cleanup(NULL);
    return NULL;
}

static void run_experiment(void)
{
    xt_trials = 1 + vx_choose_free(8, "trials");
    pthread_t th;
    pthread_create(&th, NULL, experiment_thread, NULL);
    pthread_join(th, NULL);
}

static void run_one(void)
{
    const char *m = vx_opt("mode", "seq");
    if (!strcmp(m, "experiment")) {
        run_experiment();
        return;
    }
    if (!strcmp(m, "ramp")) {
        run_ramp();
    }
    else if (!strcmp(m, "static")) {
        run_static();
    }
    else {
        run_seq();
    }
}

static void ginit(void)
{
    objsz = (size_t)vx_opt_int("objsz", 24);
    objnum = (uint64_t)vx_opt_int("objnum", 1);
    g_sparse = vx_opt_int("sparse", 0) != 0;
    live = malloc(sizeof(struct lv) * MAXLIVE);
    cmb_logger_flags_off(0x7FFFFFFFu);
}

int main(int argc, char **argv)
{
    struct vx_harness h = { "c20_mempool", run_one, NULL, ginit };
    return vx_main(argc, argv, &h);
}
