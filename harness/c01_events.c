/*
 * C01 - event queue semantics through the public cmb_event_* API, compared with
 * a reference model after every call, from outside the dispatcher and from
 * inside running event actions.
 *
 * options: depth=N start=<double>
 */
#include <inttypes.h>
#include <stdio.h>
#include <stdlib.h>
#include <string.h>

#include "vx_explore.h"

#include "cmb_event.h"
#include "cmb_logger.h"
#include "cmi_hashheap.h"

extern struct cmi_hashheap *cmi_verif_event_queue(void);

#define MAXEV 128

enum script { SC_NONE, SC_SCHED_NOW, SC_SCHED_LATER, SC_CANCEL_OLDEST, SC_RESCHED_OLDEST,
              SC_REPRIO_OLDEST, SC_PCANCEL_SUBJ, SC_CLEAR, SC_CANCEL_NEWEST_RESCHED, NSCRIPTS };

struct mev {
    uint64_t h;
    double t;
    int64_t p;
    int act; /* 0 = action_a, 1 = action_b */
    void *subj, *obj;
    int script;
};

static struct mev pend[MAXEV];
static int npend;
static uint64_t deadh[MAXEV];
static int ndead;
static double m_clock;
static uint64_t last_handle, m_current;
static bool current_defined;
static uint64_t n_invocations, n_expected_invocations;
static int o_depth;
static int o_survivors;
static double o_start;
static const char *opname = "init";
static char subjA, subjB, objX, objY;
static uint64_t nsched;

static void action_a(void *s, void *o);
static void action_b(void *s, void *o);
static cmb_event_func *const ACT[2] = { action_a, action_b };

static char g_sig[160];
static const char *sigbuf(const char *rule)
{
    snprintf(g_sig, sizeof g_sig, "c01:%s:%s", rule, opname);
    return g_sig;
}
#define FAIL(rule, ...) vx_violation(sigbuf(rule), __VA_ARGS__)

static int m_find(uint64_t h)
{
    for (int i = 0; i < npend; i++) {
        if (pend[i].h == h) {
            return i;
        }
    }
    return -1;
}

static void m_remove(int i)
{
    if (ndead < MAXEV) {
        deadh[ndead++] = pend[i].h;
    }
    pend[i] = pend[npend - 1];
    npend--;
}

static int m_next(void)
{
    int b = -1;
    for (int i = 0; i < npend; i++) {
        if (b < 0 || pend[i].t < pend[b].t
            || (pend[i].t == pend[b].t && (pend[i].p > pend[b].p
                || (pend[i].p == pend[b].p && pend[i].h < pend[b].h)))) {
            b = i;
        }
    }
    return b;
}

static int m_oldest(void)
{
    int b = -1;
    for (int i = 0; i < npend; i++) {
        if (b < 0 || pend[i].h < pend[b].h) {
            b = i;
        }
    }
    return b;
}

static int m_newest(void)
{
    int b = -1;
    for (int i = 0; i < npend; i++) {
        if (b < 0 || pend[i].h > pend[b].h) {
            b = i;
        }
    }
    return b;
}

static bool m_match(const struct mev *e, int act, const void *s, const void *o)
{
    return (act < 0 || e->act == act) && (s == CMB_ANY_SUBJECT || s == e->subj)
           && (o == CMB_ANY_OBJECT || o == e->obj);
}

static void check_all(void)
{
    if (cmb_event_queue_count() != (uint64_t)npend) {
        FAIL("count", "queue_count %" PRIu64 " model %d", cmb_event_queue_count(), npend);
        return;
    }
    if (cmb_event_queue_is_empty() != (npend == 0)) {
        FAIL("is-empty", "queue_is_empty wrong");
    }
    for (int i = 0; i < npend; i++) {
        if (!cmb_event_is_scheduled(pend[i].h)) {
            FAIL("is-scheduled", "pending event %" PRIu64 " reported not scheduled", pend[i].h);
            return;
        }
        if (cmb_event_time(pend[i].h) != pend[i].t) {
            FAIL("time", "event %" PRIu64 " time %g model %g", pend[i].h, cmb_event_time(pend[i].h), pend[i].t);
        }
        if (cmb_event_priority(pend[i].h) != pend[i].p) {
            FAIL("priority", "event %" PRIu64 " priority %" PRIi64 " model %" PRIi64, pend[i].h,
                 cmb_event_priority(pend[i].h), pend[i].p);
        }
    }
    for (int i = 0; i < ndead; i++) {
        if (cmb_event_is_scheduled(deadh[i])) {
            FAIL("dead-scheduled", "executed/cancelled event %" PRIu64 " reported scheduled", deadh[i]);
            return;
        }
    }
    if (cmb_time() != m_clock) {
        FAIL("clock", "cmb_time %g model %g", cmb_time(), m_clock);
    }
    if (current_defined && cmb_event_current() != m_current) {
        FAIL("current", "cmb_event_current %" PRIu64 " but the %s event is %" PRIu64,
             cmb_event_current(), "running/most recently executed", m_current);
    }
    /* all 8 wildcard combinations of (action_a, subjA, objX) */
    for (int w = 0; w < 8; w++) {
        const int act = (w & 1) ? -1 : 0;
        const void *s = (w & 2) ? CMB_ANY_SUBJECT : (void *)&subjA;
        const void *o = (w & 4) ? CMB_ANY_OBJECT : (void *)&objX;
        uint64_t want = 0;
        for (int i = 0; i < npend; i++) {
            want += m_match(&pend[i], act, s, o);
        }
        cmb_event_func *af = (act < 0) ? CMB_ANY_ACTION : action_a;
        const uint64_t got = cmb_event_pattern_count(af, s, o);
        if (got != want) {
            FAIL("pattern-count", "wildcard mask %d: count %" PRIu64 " model %" PRIu64, w, got, want);
        }
        const uint64_t f = cmb_event_pattern_find(af, s, o);
        const int fi = f ? m_find(f) : -1;
        if ((want == 0) != (f == 0) || (f && (fi < 0 || !m_match(&pend[fi], act, s, o)))) {
            FAIL("pattern-find", "wildcard mask %d: find returned %" PRIu64 ", model has %" PRIu64, w, f, want);
        }
    }
    /* structure of the real queue */
    const struct cmi_hashheap *hp = cmi_verif_event_queue();
    for (uint64_t j = 1; j <= hp->heap_count; j++) {
        const struct cmi_heap_tag *t = &hp->heap[j];
        if (t->hash_index >= hp->hash_size || hp->hash_map[t->hash_index].key != t->key
            || hp->hash_map[t->hash_index].heap_index != j) {
            FAIL("structure-backpointer", "heap[%" PRIu64 "] key %" PRIu64 " bad back pointer", j, t->key);
            return;
        }
        if (j >= 2 && (*hp->heap_compare)(t, &hp->heap[j >> 1])) {
            FAIL("structure-heap-order", "heap[%" PRIu64 "] precedes its parent", j);
            return;
        }
    }
    /* fingerprint */
    uint64_t acc = 0;
    for (int i = 0; i < npend; i++) {
        uint64_t e = vx_mix(vx_hash_bytes(3, &pend[i].t, sizeof(double)), (uint64_t)pend[i].p);
        e = vx_mix(e, (uint64_t)pend[i].act * 4 + (pend[i].subj == &subjA) * 2 + (pend[i].obj == &objX));
        acc += vx_mix(e, (uint64_t)pend[i].script);
    }
    vx_state(vx_mix(vx_mix(acc, (uint64_t)npend), hp->heap_size));
}

static uint64_t do_schedule(double t, int64_t p, int script)
{
    const uint64_t n = nsched++;
    struct mev e;
    e.act = (int)(n % 2);
    e.subj = (n % 3 == 0) ? (void *)&subjA : (void *)&subjB;
    e.obj = (n % 4 < 2) ? (void *)&objX : (void *)&objY;
    e.t = t;
    e.p = p;
    e.script = script;
    /* the script travels in the model only; the real event carries (subj,obj) */
    e.h = cmb_event_schedule(ACT[e.act], e.subj, e.obj, t, p);
    vx_transition();
    vx_outcome(e.h);
    if (e.h == 0 || e.h <= last_handle) {
        FAIL("handle-not-increasing", "schedule returned %" PRIu64 " after %" PRIu64, e.h, last_handle);
    }
    last_handle = e.h;
    if (npend < MAXEV) {
        pend[npend++] = e;
    }
    return e.h;
}

static void do_cancel(uint64_t h)
{
    const int i = m_find(h);
    const bool r = cmb_event_cancel(h);
    vx_transition();
    vx_outcome(r);
    if (r != (i >= 0)) {
        FAIL("cancel-ret", "cancel(%" PRIu64 ") returned %d, model pending=%d", h, r, i >= 0);
    }
    if (i >= 0) {
        m_remove(i);
    }
}

static void do_pcancel(int act, const void *s, const void *o)
{
    uint64_t want = 0;
    for (int i = npend - 1; i >= 0; i--) {
        if (m_match(&pend[i], act, s, o)) {
            want++;
            m_remove(i);
        }
    }
    const uint64_t got = cmb_event_pattern_cancel(act < 0 ? CMB_ANY_ACTION : ACT[act], s, o);
    vx_transition();
    vx_outcome(got);
    if (got != want) {
        FAIL("pattern-cancel-ret", "pattern_cancel returned %" PRIu64 " model %" PRIu64, got, want);
    }
}

static void run_script(int script)
{
    int i;
    switch (script) {
    case SC_SCHED_NOW:
        do_schedule(m_clock, 0, SC_NONE);
        break;
    case SC_SCHED_LATER:
        do_schedule(m_clock + 1.0, 1, SC_NONE);
        break;
    case SC_CANCEL_OLDEST:
        if ((i = m_oldest()) >= 0) {
            do_cancel(pend[i].h);
        }
        else {
            do_cancel(ndead ? deadh[0] : 12345u);
        }
        break;
    case SC_RESCHED_OLDEST:
        if ((i = m_oldest()) >= 0) {
            pend[i].t = m_clock + 2.0;
            cmb_event_reschedule(pend[i].h, pend[i].t);
            vx_transition();
        }
        break;
    case SC_REPRIO_OLDEST:
        if ((i = m_oldest()) >= 0) {
            pend[i].p = -7;
            cmb_event_reprioritize(pend[i].h, -7);
            vx_transition();
        }
        break;
    case SC_PCANCEL_SUBJ:
        do_pcancel(-1, &subjA, CMB_ANY_OBJECT);
        break;
    case SC_CLEAR:
        cmb_event_queue_clear();
        vx_transition();
        while (npend) {
            m_remove(npend - 1);
        }
        current_defined = false; /* latitude: clear wipes the queue, current() unspecified */
        break;
    case SC_CANCEL_NEWEST_RESCHED:
        if ((i = m_newest()) >= 0) {
            do_cancel(pend[i].h);
        }
        if ((i = m_newest()) >= 0) {
            pend[i].t = m_clock;
            cmb_event_reschedule(pend[i].h, pend[i].t);
            vx_transition();
        }
        break;
    default:
        break;
    }
}

static void on_action(int act, void *s, void *o)
{
    const char *saved = opname;
    opname = "action";
    n_invocations++;
    vx_transition();
    const int i = m_next();
    if (i < 0) {
        FAIL("invented-event", "an action ran although the model has no pending event");
        opname = saved;
        return;
    }
    const struct mev e = pend[i];
    vx_outcome(e.h);
    if (cmb_time() != e.t) {
        FAIL("clock-in-action", "cmb_time()=%g inside action, next event %" PRIu64 " is due at %g",
             cmb_time(), e.h, e.t);
    }
    if (cmb_time() < m_clock) {
        FAIL("clock-decreased", "clock went from %g to %g", m_clock, cmb_time());
    }
    if (act != e.act || s != e.subj || o != e.obj) {
        /* which event ran instead? */
        FAIL("wrong-order", "action invoked with (act %d) but the model's next event is %" PRIu64
             " (t=%g p=%" PRIi64 " act %d)", act, e.h, e.t, e.p, e.act);
    }
    m_clock = e.t;
    m_current = e.h;
    current_defined = true;
    if (cmb_event_current() != e.h) {
        FAIL("current-at-entry", "cmb_event_current()=%" PRIu64 " at action entry, running event is %" PRIu64,
             cmb_event_current(), e.h);
    }
    m_remove(i);
    check_all();
    vx_trace("    action: event %" PRIu64 " t=%g p=%" PRIi64 " script %d\n", e.h, e.t, e.p, e.script);
    if (e.script != SC_NONE) {
        opname = "action-script";
        run_script(e.script);
        check_all();
    }
    opname = saved;
}

static void action_a(void *s, void *o)
{
    on_action(0, s, o);
}

static void action_b(void *s, void *o)
{
    on_action(1, s, o);
}

static void do_execute_next(void)
{
    const bool expect = npend > 0;
    const uint64_t before = n_invocations;
    const bool r = cmb_event_execute_next();
    if (r != expect) {
        FAIL("execute-next-ret", "execute_next returned %d, model has %d pending", r, npend + (int)(n_invocations - before));
    }
    if (n_invocations - before != (expect ? 1u : 0u)) {
        FAIL("execute-next-count", "execute_next invoked %" PRIu64 " actions", n_invocations - before);
    }
}

struct sv { double dt; int64_t p; int script; };
static const struct sv SV[] = {
    { 0, 0, SC_NONE }, { 1, 0, SC_NONE }, { 0, 1, SC_NONE }, { 1, -1, SC_NONE },
    { 0, INT64_MAX, SC_NONE }, { 1, INT64_MIN, SC_NONE }, { 2, 0, SC_NONE }, { 1e300, 0, SC_NONE },
    { 0, 0, SC_SCHED_NOW }, { 1, 0, SC_SCHED_LATER }, { 0, 2, SC_CANCEL_OLDEST },
    { 1, 0, SC_RESCHED_OLDEST }, { 0, 0, SC_REPRIO_OLDEST }, { 1, 1, SC_PCANCEL_SUBJ },
    { 1, 0, SC_CLEAR }, { 0, -1, SC_CANCEL_NEWEST_RESCHED },
};
#define NSV ((int)(sizeof SV / sizeof SV[0]))

enum { OP_MANY9 = NSV, OP_MANY17, OP_CANCEL_OLD, OP_CANCEL_NEW, OP_CANCEL_DEAD, OP_RESCHED_OLD_0,
       OP_RESCHED_OLD_2, OP_REPRIO_OLD_HI, OP_REPRIO_NEW_MIN, OP_PC_ACT, OP_PC_SUBJ_OBJ, OP_CLEAR,
       OP_EXEC1, OP_RUN, NOPS };

static void run_one(void)
{
    npend = 0;
    ndead = 0;
    last_handle = 0;
    m_current = 0;
    current_defined = true; /* documented: zero if no events have occurred */
    n_invocations = 0;
    nsched = 0;
    m_clock = o_start;
    opname = "init";
    if (vx_opt_int("reuse", 1)) {
        /* an earlier life of the thread's event queue: filled beyond its first growth, partly cancelled, cleared,
         * refilled, terminated - then the queue this execution works with is initialized (a program running
         * several trials on one thread) */
        cmb_event_queue_initialize(100.0);
        uint64_t hs[11];
        for (int k = 0; k < 11; k++) {
            hs[k] = cmb_event_schedule(ACT[0], (void *)(uintptr_t)0x7000, (void *)(uintptr_t)k, 100.0 + (k * 7) % 5, (int64_t)(k % 3));
        }
        (void)cmb_event_cancel(hs[4]);
        (void)cmb_event_cancel(hs[0]);
        cmb_event_queue_clear();
        (void)cmb_event_schedule(ACT[0], (void *)(uintptr_t)0x7000, NULL, 101.0, 0);
        cmb_event_queue_terminate();
    }
    cmb_event_queue_initialize(o_start);
    check_all();
    if (o_survivors > 0) {
        /*
         * "survivors": N events are scheduled one after the other; every one is executed at once except three,
         * which stay pending for later times, so the queue never holds more than four events and never grows,
         * while handles go up to N. Every ordered triple of survivors (W, V, Z) is enumerated: V then leaves
         * (cancelled or executed first), W is executed, and every handle query is compared with the model after
         * each step; finally the rest runs. (Handle keys that share a probe chain in the queue's hash map are
         * N/8 apart or so: which ones collide is the library's business, all triples are tried.)
         */
        const int N = o_survivors;
        const int w = vx_choose_free(N, "W"), v = vx_choose_free(N, "V"), z = vx_choose_free(N, "Z");
        const int vleaves = vx_choose_free(2, "V-leaves-by");
        if (w == v || w == z || v == z) {
            cmb_event_queue_terminate();
            return;
        }
        uint64_t hw = 0, hv = 0, hz = 0;
        for (int k = 0; k < N && vx_violations_this_exec() == 0; k++) {
            opname = "schedule";
            if (k == w) {
                hw = do_schedule(m_clock + 20.0, 0, SC_NONE);
            }
            else if (k == v) {
                hv = do_schedule(m_clock + (vleaves ? 10.0 : 30.0), 0, SC_NONE);
            }
            else if (k == z) {
                hz = do_schedule(m_clock + 40.0, 0, SC_NONE);
            }
            else {
                (void)do_schedule(m_clock, 5, SC_NONE); /* due now, ahead of everything else: executed at once */
                opname = "execute-next";
                do_execute_next();
            }
            check_all();
        }
        (void)hw;
        (void)hz;
        if (vx_violations_this_exec() == 0) {
            if (vleaves == 0) {
                opname = "cancel";
                do_cancel(hv);
            }
            else {
                opname = "execute-next";
                do_execute_next(); /* V, due first */
            }
            check_all();
        }
        if (vx_violations_this_exec() == 0) {
            opname = "execute-next";
            do_execute_next(); /* W */
            check_all();
        }
    }
    for (int step = 0; o_survivors == 0 && step < o_depth; step++) {
        int menu[NOPS], nm = 0;
        for (int op = 0; op < NOPS; op++) {
            bool en = true;
            if (op < NSV || op == OP_MANY9 || op == OP_MANY17) {
                en = npend < MAXEV - 40;
            }
            else if (op == OP_CANCEL_OLD || op == OP_RESCHED_OLD_0 || op == OP_RESCHED_OLD_2
                     || op == OP_REPRIO_OLD_HI) {
                en = npend >= 1;
            }
            else if (op == OP_CANCEL_NEW || op == OP_REPRIO_NEW_MIN) {
                en = npend >= 2;
            }
            if (en) {
                menu[nm++] = op;
            }
        }
        const int op = menu[vx_choose_free(nm, "op")];
        int i;
        vx_trace("step %d: op %d, %d pending, clock %g\n", step, op, npend, m_clock);
        if (op < NSV) {
            opname = "schedule";
            do_schedule(m_clock + SV[op].dt, SV[op].p, SV[op].script);
        }
        else {
            switch (op) {
            case OP_MANY9:
            case OP_MANY17:
                opname = "schedule-many";
                for (int k = 0; k < (op == OP_MANY9 ? 9 : 17); k++) {
                    do_schedule(m_clock + 1.0, (k % 3 == 2) ? 1 : 0, (k == 4) ? SC_SCHED_NOW : SC_NONE);
                }
                break;
            case OP_CANCEL_OLD:
                opname = "cancel";
                do_cancel(pend[m_oldest()].h);
                break;
            case OP_CANCEL_NEW:
                opname = "cancel";
                do_cancel(pend[m_newest()].h);
                break;
            case OP_CANCEL_DEAD:
                opname = "cancel-dead";
                do_cancel(ndead ? deadh[ndead - 1] : 424242u);
                break;
            case OP_RESCHED_OLD_0:
            case OP_RESCHED_OLD_2:
                opname = "reschedule";
                i = m_oldest();
                pend[i].t = m_clock + (op == OP_RESCHED_OLD_0 ? 0.0 : 2.0);
                cmb_event_reschedule(pend[i].h, pend[i].t);
                vx_transition();
                break;
            case OP_REPRIO_OLD_HI:
                opname = "reprioritize";
                i = m_oldest();
                pend[i].p = 5;
                cmb_event_reprioritize(pend[i].h, 5);
                vx_transition();
                break;
            case OP_REPRIO_NEW_MIN:
                opname = "reprioritize";
                i = m_newest();
                pend[i].p = INT64_MIN;
                cmb_event_reprioritize(pend[i].h, INT64_MIN);
                vx_transition();
                break;
            case OP_PC_ACT:
                opname = "pattern-cancel";
                do_pcancel(0, CMB_ANY_SUBJECT, CMB_ANY_OBJECT);
                break;
            case OP_PC_SUBJ_OBJ:
                opname = "pattern-cancel";
                do_pcancel(-1, &subjB, &objY);
                break;
            case OP_CLEAR:
                opname = "clear";
                cmb_event_queue_clear();
                vx_transition();
                while (npend) {
                    m_remove(npend - 1);
                }
                current_defined = false;
                break;
            case OP_EXEC1:
                opname = "execute-next";
                do_execute_next();
                break;
            case OP_RUN:
                opname = "run";
                while (npend > 0 && vx_violations_this_exec() == 0) {
                    do_execute_next();
                }
                break;
            }
        }
        check_all();
        if (vx_violations_this_exec()) {
            break;
        }
    }
    /* finally run everything that is left: every pending event runs exactly once */
    opname = "final-run";
    int guard = 0;
    while (npend > 0 && vx_violations_this_exec() == 0 && guard++ < 1000) {
        do_execute_next();
        check_all();
    }
    if (vx_violations_this_exec() == 0) {
        if (cmb_event_execute_next()) {
            FAIL("extra-event", "an event executed although the model is empty");
        }
    }
    cmb_event_queue_terminate();
}

static void ginit(void)
{
    o_depth = (int)vx_opt_int("depth", 3);
    o_survivors = (int)vx_opt_int("survivors", 0);
    o_start = atof(vx_opt("start", "0"));
    cmb_logger_flags_off(0x7FFFFFFFu);
}

int main(int argc, char **argv)
{
    struct vx_harness h = { "c01_events", run_one, NULL, ginit };
    return vx_main(argc, argv, &h);
}
