#!/usr/bin/env python3
"""Build the current tree of ambonvik/cimba (objects + static archive) and the
verification harnesses, without meson.

    build.py lib   <cfg> [--repo DIR]     -> build/<cfg>/<tag>/libcimba.a
    build.py harness <cfg> <name> [--repo DIR]

Configurations: asan (clang, ASan+UBSan subset), rel (gcc -O2), rel3 (gcc -O3),
tsan (clang, ThreadSanitizer).

The library is rebuilt whenever any byte of the source tree (src/, include/,
codegen/) or the flags differ from what the cached archive was built from: the
cache key is a hash of all file contents, so "cached" always means "identical to
a rebuild from the current working tree".
"""
import fcntl
import hashlib
import os
import shutil
import subprocess
import sys
from concurrent.futures import ThreadPoolExecutor

VERIF = os.path.dirname(os.path.dirname(os.path.abspath(__file__)))
BUILD = os.path.join(VERIF, "build")
GUARD = "CIMBA_VERIF"

UBSAN = ("signed-integer-overflow,shift,integer-divide-by-zero,bounds,"
         "float-cast-overflow,pointer-overflow,vla-bound,unreachable,return")

CFGS = {
    "asan": dict(cc="clang",
                 cflags=["-O1", "-g", "-fno-omit-frame-pointer",
                         "-fsanitize=address", "-fsanitize=" + UBSAN,
                         "-fno-sanitize-recover=" + UBSAN],
                 ldflags=["-fsanitize=address", "-fsanitize=" + UBSAN]),
    "rel": dict(cc="gcc", cflags=["-O2", "-g"], ldflags=[]),
    "rel3": dict(cc="gcc", cflags=["-O3", "-g"], ldflags=[]),
    "tsan": dict(cc="clang", cflags=["-O1", "-g", "-fsanitize=thread"],
                 ldflags=["-fsanitize=thread"]),
}

COMMON = ["-std=c17", "-D_POSIX_C_SOURCE=200809L", "-DNDEBUG", "-D" + GUARD,
          "-Wno-pedantic", "-ftls-model=initial-exec", "-w"]


def repo_dir(argv):
    if "--repo" in argv:
        return os.path.abspath(argv[argv.index("--repo") + 1])
    return os.environ.get("VERIF_REPO", "/repo")


def tree_hash(repo, extra):
    h = hashlib.sha256()
    for sub in ("src", "include", "codegen"):
        for root, dirs, files in sorted(os.walk(os.path.join(repo, sub))):
            dirs.sort()
            for f in sorted(files):
                p = os.path.join(root, f)
                h.update(os.path.relpath(p, repo).encode())
                with open(p, "rb") as fh:
                    h.update(fh.read())
    h.update(repr(extra).encode())
    return h.hexdigest()[:16]


def run(cmd, **kw):
    r = subprocess.run(cmd, stdout=subprocess.PIPE, stderr=subprocess.STDOUT,
                       text=True, **kw)
    if r.returncode != 0:
        sys.stderr.write("BUILD FAILED: %s\n%s\n" % (" ".join(cmd), r.stdout))
        sys.exit(2)
    return r.stdout


def build_lib(cfg, repo):
    c = CFGS[cfg]
    key = tree_hash(repo, (cfg, c, COMMON))
    out = os.path.join(BUILD, cfg, key)
    lib = os.path.join(out, "libcimba.a")
    os.makedirs(os.path.join(BUILD, cfg), exist_ok=True)
    lock = open(os.path.join(BUILD, cfg, ".lock"), "w")
    fcntl.flock(lock, fcntl.LOCK_EX)
    try:
        if os.path.exists(lib):
            os.utime(out, None)
            return out
        # disk hygiene: drop cached builds of other trees that have not been used for an hour
        # (never a recent one: another check may be running against a different tree right now)
        import time
        for d in os.listdir(os.path.join(BUILD, cfg)):
            p = os.path.join(BUILD, cfg, d)
            if os.path.isdir(p) and d != key and time.time() - os.path.getmtime(p) > 3600:
                shutil.rmtree(p, ignore_errors=True)
        tmp = out + ".tmp"
        shutil.rmtree(tmp, ignore_errors=True)
        os.makedirs(os.path.join(tmp, "gen"))
        os.makedirs(os.path.join(tmp, "obj"))
        # codegen (plain host compiler, no sanitizers: it only prints tables)
        for name in ("exponential", "normal"):
            exe = os.path.join(tmp, "gen", "calc_" + name)
            run(["gcc", "-O2", "-w", "-o", exe,
                 os.path.join(repo, "codegen", "calc_%s.c" % name),
                 os.path.join(repo, "codegen", "calc_utils.c"), "-lm"])
            short = {"exponential": "exp", "normal": "nor"}[name]
            inc = os.path.join(tmp, "gen", "cmi_random_%s_zig.inc" % short)
            with open(inc, "w") as fh:
                fh.write(run([exe]))
        incs = ["-I" + os.path.join(repo, "include"), "-I" + os.path.join(repo, "src"),
                "-I" + os.path.join(tmp, "gen")]
        srcs = []
        for f in sorted(os.listdir(os.path.join(repo, "src"))):
            if f.endswith(".c"):
                srcs.append(os.path.join(repo, "src", f))
        port = os.path.join(repo, "src", "port", "x86-64", "linux")
        for f in sorted(os.listdir(port)):
            if f.endswith(".c"):
                srcs.append(os.path.join(port, f))
        objs = []

        def cc1(src):
            obj = os.path.join(tmp, "obj", os.path.basename(src)[:-2] + ".o")
            run([c["cc"]] + COMMON + c["cflags"] + incs + ["-c", src, "-o", obj])
            return obj

        with ThreadPoolExecutor(16) as ex:
            objs = list(ex.map(cc1, srcs))
        for f in sorted(os.listdir(port)):
            if f.endswith(".asm"):
                obj = os.path.join(tmp, "obj", f[:-4] + "_asm.o")
                run(["nasm", "-f", "elf64", os.path.join(port, f), "-o", obj])
                objs.append(obj)
        run(["ar", "rcs", os.path.join(tmp, "libcimba.a")] + objs)
        os.rename(tmp, out)
        return out
    finally:
        fcntl.flock(lock, fcntl.LOCK_UN)
        lock.close()


def build_harness(cfg, name, repo, extra_defs=()):
    """harness/<name>.c (+ optional harness/<name>.S) + engine/*.c -> binary"""
    c = CFGS[cfg]
    out = build_lib(cfg, repo)
    hdir = os.path.join(VERIF, "harness")
    edir = os.path.join(VERIF, "engine")
    srcs = [os.path.join(hdir, name + ".c")]
    if os.path.exists(os.path.join(hdir, name + ".S")):
        srcs.append(os.path.join(hdir, name + ".S"))
    esrcs = [os.path.join(edir, f) for f in sorted(os.listdir(edir)) if f.endswith(".c")]
    extra_ld = []
    ldf = os.path.join(hdir, name + ".ldflags")
    if os.path.exists(ldf):
        extra_ld = open(ldf).read().split()
    deps = srcs + esrcs + [os.path.join(edir, f) for f in os.listdir(edir) if f.endswith(".h")] \
        + [os.path.join(hdir, f) for f in os.listdir(hdir) if f.endswith((".h", ".inc"))]
    h = hashlib.sha256()
    for p in sorted(deps):
        h.update(p.encode())
        h.update(open(p, "rb").read())
    h.update(repr(extra_defs).encode())
    h.update(repr(extra_ld).encode())
    tag = h.hexdigest()[:12]
    exe = os.path.join(out, "%s.%s" % (name, tag))
    lock = open(os.path.join(BUILD, cfg, ".lock"), "w")
    fcntl.flock(lock, fcntl.LOCK_EX)
    try:
        if os.path.exists(exe):
            return exe
        incs = ["-I" + os.path.join(repo, "include"), "-I" + os.path.join(repo, "src"),
                "-I" + os.path.join(out, "gen"), "-I" + edir, "-I" + hdir,
                "-DVX_REPO_SRC=\"%s\"" % os.path.join(repo, "src")]
        flags = ["-std=gnu17", "-D_GNU_SOURCE", "-DNDEBUG", "-D" + GUARD,
                 "-ftls-model=initial-exec", "-Wall", "-Wno-unused-function",
                 "-Wno-unused-variable", "-Wno-unused-but-set-variable"]
        run([c["cc"]] + flags + c["cflags"] + list(extra_defs) + incs + srcs + esrcs +
            [os.path.join(out, "libcimba.a"), "-lm", "-lpthread"] + c["ldflags"] + extra_ld +
            ["-o", exe + ".tmp"])
        os.rename(exe + ".tmp", exe)
        return exe
    finally:
        fcntl.flock(lock, fcntl.LOCK_UN)
        lock.close()


if __name__ == "__main__":
    a = sys.argv[1:]
    repo = repo_dir(a)
    if a and a[0] == "lib":
        print(build_lib(a[1], repo))
    elif a and a[0] == "harness":
        print(build_harness(a[1], a[2], repo))
    else:
        print(__doc__)
        sys.exit(2)
