"""Per-property job lists: which harness, which configurations, which bounds.

A job = one run of the explorer over one harness configuration. `jobs(tier)`
returns the list for a tier; budgets are wall-clock seconds for the whole check.
"""

SPECS = {}


def spec(pid, **kw):
    SPECS[pid] = kw


# ----------------------------------------------------------------------------- C02
def c02_jobs(tier):
    jobs = []
    orders = ["event", "guard", "holder", "pq", "default"]
    if tier == "quick":
        for o in orders:
            for keys, exp, depth in (("auto", 1, 4), ("mixed", 2, 4), ("caller", 3, 4)):
                jobs.append(dict(name="seq-%s-%s-e%d" % (o, keys, exp), harness="c02_hashheap",
                                 opts=dict(order=o, keys=keys, exp=exp, depth=depth, mode="seq"),
                                 bound_min=0, bound_max=0, deadline=120))
            jobs.append(dict(name="ramp-%s" % o, harness="c02_hashheap",
                             opts=dict(order=o, keys="mixed", exp=1, mode="ramp"),
                             bound_min=0, bound_max=0, deadline=60))
    else:
        for o in orders:
            for keys in ("auto", "mixed", "caller"):
                for exp in (1, 2, 3):
                    jobs.append(dict(name="seq-%s-%s-e%d" % (o, keys, exp), harness="c02_hashheap",
                                     opts=dict(order=o, keys=keys, exp=exp, depth=5, mode="seq"),
                                     bound_min=0, bound_max=0, deadline=400))
            jobs.append(dict(name="seq6-%s" % o, harness="c02_hashheap",
                             opts=dict(order=o, keys="mixed", exp=1, depth=6, mode="seq"),
                             bound_min=0, bound_max=0, deadline=900))
            for exp in (1, 2, 3):
                jobs.append(dict(name="ramp-%s-e%d" % (o, exp), harness="c02_hashheap",
                                 opts=dict(order=o, keys="mixed", exp=exp, mode="ramp"),
                                 bound_min=0, bound_max=0, deadline=60))
    return jobs


spec("C02",
     jobs=c02_jobs,
     technique="explicit-state exhaustive enumeration of operation sequences on the real cmi_hashheap against a reference model (all sequences to depth D + parametric ramps)",
     level_text="Every operation sequence up to the stated depth over a 24-operation menu, for every ordering function "
                "used in the library, every initial exponent 1-3 and auto/caller/mixed keys with forced hash collisions, is "
                "executed on the real structure; return values, full structural well-formedness and all key lookups are "
                "compared with a boring array model after every call. Small-scope exhaustive: below the bound nothing is sampled.",
     level_note="Trusted: the reference array model and the strict-weak-order precheck in harness/c02_hashheap.c; the explorer. "
                "Not covered: sequences longer than the depth bound, capacities beyond 2^7.",
     budget=dict(quick=600, thorough=7200),
     crash_is_violation=True,
     rule="every operation sequence of the stated depth over the menu {enqueue (auto key x4 sort keys, "
          "5 colliding caller keys), dequeue, remove (oldest/newest/middle/dead), reprioritize x4, "
          "pattern-cancel x3, clear, reset, enqueue-many(5)} is executed on the real cmi_hashheap and "
          "compared with a reference array after every call, then drained; plus tombstone ramps n=1..40. "
          "distinct_nontrivial = number of distinct outcome signatures (hash of all return values) observed; "
          "states = distinct abstract states (live key/sort-key multiset + capacity) reached",
     assumptions=["keys supplied by the caller never collide with automatically issued keys (documented precondition)",
                  "growth thresholds beyond 2^7 entries are not crossed by the sequence search (ramps reach 64)"])


# ----------------------------------------------------------------------------- C01
def c01_jobs(tier):
    jobs = []
    if tier == "quick":
        for start, depth in (("0", 4), ("-5", 3), ("3", 3)):
            jobs.append(dict(name="seq-start%s-d%d" % (start, depth), harness="c01_events",
                             opts=dict(depth=depth, start=start), bound_min=0, bound_max=0, deadline=200))
    else:
        for start, depth in (("0", 5), ("-5", 4), ("3", 4)):
            jobs.append(dict(name="seq-start%s-d%d" % (start, depth), harness="c01_events",
                             opts=dict(depth=depth, start=start), bound_min=0, bound_max=0, deadline=3000))
    return jobs


spec("C01",
     jobs=c01_jobs,
     technique="explicit-state exhaustive enumeration of API call sequences (incl. calls made from inside running actions) on the real event queue against a reference model",
     level_text="Every sequence up to the stated depth over 30 operations (16 schedule variants with ties, int64 extremes, "
                "1e300 and 8 in-action scripts that schedule/cancel/reschedule/reprioritise/pattern-cancel/clear from inside the "
                "dispatcher; bulk schedules crossing the 8/16/32 capacity thresholds; cancel, reschedule, reprioritise, pattern "
                "cancel, clear, execute-next, run) is run on the real queue; every return value, every handle query, all 8 wildcard "
                "patterns, the clock, the current-event query and the heap structure are compared with a list model after every call "
                "and at every action entry; finally the queue is run to empty (exactly-once).",
     level_note="Trusted: the list model in harness/c01_events.c and the explorer. Latitude: cmb_event_current() is not asserted "
                "after cmb_event_queue_clear(). Not covered: sequences longer than the depth bound.",
     budget=dict(quick=600, thorough=7200),
     rule="all operation sequences of the stated depth; distinct_nontrivial = distinct outcome signatures (hash of handles "
          "returned, cancel results and the order in which events ran); states = distinct abstract queue contents reached",
     assumptions=["start times -5, 0 and 3 stand for 'any start time'"])
