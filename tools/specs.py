"""Per-property job lists: which harness, which configurations, which bounds.

A job = one run of the explorer over one harness configuration. `jobs(tier)`
returns the list for a tier; budgets are wall-clock seconds for the whole check.
"""

SPECS = {}


def spec(pid, **kw):
    SPECS[pid] = kw


# ----------------------------------------------------------------------------- C02
def c02_jobs(tier):
    jobs = []
    orders = ["event", "guard", "holder", "pq", "default"]
    if tier == "quick":
        for o in orders:
            for keys, exp, depth in (("auto", 1, 4), ("mixed", 2, 4), ("caller", 3, 4)):
                jobs.append(dict(name="seq-%s-%s-e%d" % (o, keys, exp), harness="c02_hashheap",
                                 opts=dict(order=o, keys=keys, exp=exp, depth=depth, mode="seq"),
                                 bound_min=0, bound_max=0, deadline=120))
            jobs.append(dict(name="ramp-%s" % o, harness="c02_hashheap",
                             opts=dict(order=o, keys="mixed", exp=1, mode="ramp"),
                             bound_min=0, bound_max=0, deadline=60))
        # the default ordering on sort keys one unit in the last place apart (oracle: the documented "increasing dsortkey")
        jobs.append(dict(name="seq-default-near-equal-sortkeys", harness="c02_hashheap",
                         opts=dict(order="default", keys="auto", exp=1, depth=4, mode="seq", nearkeys=1, lives=0),
                         bound_min=0, bound_max=0, deadline=120))
        # generated keys mixed with caller-supplied keys at the ends of the range (2, 2^64-2, 2^64-1)
        jobs.append(dict(name="seq-default-mixed-extreme-keys", harness="c02_hashheap",
                         opts=dict(order="default", keys="mixed", exp=1, depth=4, mode="seq", ekeys=1, lives=0, reuse=0),
                         bound_min=0, bound_max=0, deadline=120))
    else:
        jobs.append(dict(name="seq-default-near-equal-sortkeys", harness="c02_hashheap",
                         opts=dict(order="default", keys="auto", exp=1, depth=5, mode="seq", nearkeys=1, lives=0),
                         bound_min=0, bound_max=0, deadline=600))
        jobs.append(dict(name="seq-default-mixed-extreme-keys", harness="c02_hashheap",
                         opts=dict(order="default", keys="mixed", exp=1, depth=5, mode="seq", ekeys=1, lives=0, reuse=0),
                         bound_min=0, bound_max=0, deadline=600))
        for o in orders:
            for keys in ("auto", "mixed", "caller"):
                for exp in (1, 2, 3):
                    # the three earlier lives of the object (see fresh()) for the mixed-key jobs, a plain new object otherwise
                    jobs.append(dict(name="seq-%s-%s-e%d" % (o, keys, exp), harness="c02_hashheap",
                                     opts=dict(order=o, keys=keys, exp=exp, depth=5, mode="seq", lives=int(keys == "mixed")),
                                     bound_min=0, bound_max=0, deadline=1200 if keys == "mixed" else 400))
            jobs.append(dict(name="seq6-%s" % o, harness="c02_hashheap",
                             opts=dict(order=o, keys="mixed", exp=1, depth=6, mode="seq", lives=0),
                             bound_min=0, bound_max=0, deadline=900))
            for exp in (1, 2, 3):
                jobs.append(dict(name="ramp-%s-e%d" % (o, exp), harness="c02_hashheap",
                                 opts=dict(order=o, keys="mixed", exp=exp, mode="ramp"),
                                 bound_min=0, bound_max=0, deadline=60))
    return jobs


spec("C02",
     jobs=c02_jobs,
     technique="explicit-state exhaustive enumeration of operation sequences on the real cmi_hashheap against a reference model (all sequences to depth D + parametric ramps)",
     level_text="Every operation sequence up to the stated depth over a 24-operation menu, for every ordering function "
                "used in the library, every initial exponent 1-3 and auto/caller/mixed keys with forced hash collisions, is "
                "executed on the real structure; return values, full structural well-formedness and all key lookups are "
                "compared with a boring array model after every call. Small-scope exhaustive: below the bound nothing is sampled.",
     level_note="Trusted: the reference array model and the strict-weak-order precheck in harness/c02_hashheap.c; the explorer. "
                "Not covered: sequences longer than the depth bound, capacities beyond 2^7.",
     budget=dict(quick=600, thorough=7200),
     crash_is_violation=True,
     rule="every operation sequence of the stated depth over the menu {enqueue (auto key x4 sort keys, "
          "5 colliding caller keys), dequeue, remove (oldest/newest/middle/dead), reprioritize x4, "
          "pattern-cancel x3, clear, reset, enqueue-many(5)} is executed on the real cmi_hashheap and "
          "compared with a reference array after every call, then drained; plus tombstone ramps n=1..40. "
          "distinct_nontrivial = number of distinct outcome signatures (hash of all return values) observed; "
          "states = distinct abstract states (live key/sort-key multiset + capacity) reached",
     assumptions=["keys supplied by the caller never collide with automatically issued keys (documented precondition)",
                  "growth thresholds beyond 2^7 entries are not crossed by the sequence search (ramps reach 64)"])


# ----------------------------------------------------------------------------- C01
def c01_jobs(tier):
    jobs = []
    if tier == "quick":
        for start, depth in (("0", 4), ("-5", 3), ("3", 3)):
            jobs.append(dict(name="seq-start%s-d%d" % (start, depth), harness="c01_events",
                             opts=dict(depth=depth, start=start), bound_min=0, bound_max=0, deadline=200))
        # handles up to 24 with never more than four events pending: every ordered triple of events that stay pending
        jobs.append(dict(name="survivors-24", harness="c01_events", opts=dict(survivors=24, start="0"), bound_min=0, bound_max=0,
                         deadline=300))
        # the same on an optimised build without sanitizers (what is shipped is -O3): arithmetic that a sanitizer
        # stops at is observed there through its consequences
        jobs.append(dict(name="seq-start0-d4-O3", harness="c01_events", cfg="rel3", opts=dict(depth=4, start="0"),
                         bound_min=0, bound_max=0, deadline=200))
    else:
        jobs.append(dict(name="survivors-40", harness="c01_events", opts=dict(survivors=40, start="0"), bound_min=0, bound_max=0,
                         deadline=1500))
        jobs.append(dict(name="seq-start0-d5-O3", harness="c01_events", cfg="rel3", opts=dict(depth=5, start="0"),
                         bound_min=0, bound_max=0, deadline=3000))
        for start, depth in (("0", 5), ("-5", 4), ("3", 4)):
            jobs.append(dict(name="seq-start%s-d%d" % (start, depth), harness="c01_events",
                             opts=dict(depth=depth, start=start), bound_min=0, bound_max=0, deadline=3000))
    # events that processes wait for (the dispatcher wakes the waiters of the event it is about to execute), executed,
    # cancelled and rescheduled, on the integer clock and on one that starts below zero: order and clock through the
    # DES driver (clock never goes back; every wait returns at the instant of its cause)
    b = 3 if tier == "quick" else 4
    for nm, extra in (("", {}), ("-fractional-clock", dict(tscale="0.1", t0="-0.15"))):
        jobs.append(des("event-waiters-p3" + nm, "notif", b, 600, procs=3, prios="0,0,1", budget=3,
                        ops="hold0,hold1,hold2,tadd1,evsched1,evsched2,waite0,waite1,evcancel0,int1,exit",
                        script0="evsched2,hold1,hold2", script1="waite0,hold1", script2="hold1,waite0,hold1", **extra))
    return jobs


spec("C01",
     jobs=c01_jobs,
     technique="explicit-state exhaustive enumeration of API call sequences (incl. calls made from inside running actions) on the real event queue against a reference model",
     level_text="Every sequence up to the stated depth over 30 operations (16 schedule variants with ties, int64 extremes, "
                "1e300 and 8 in-action scripts that schedule/cancel/reschedule/reprioritise/pattern-cancel/clear from inside the "
                "dispatcher; bulk schedules crossing the 8/16/32 capacity thresholds; cancel, reschedule, reprioritise, pattern "
                "cancel, clear, execute-next, run) is run on the real queue; every return value, every handle query, all 8 wildcard "
                "patterns, the clock, the current-event query and the heap structure are compared with a list model after every call "
                "and at every action entry; finally the queue is run to empty (exactly-once).",
     level_note="Trusted: the list model in harness/c01_events.c and the explorer. Latitude: cmb_event_current() is not asserted "
                "after cmb_event_queue_clear(). Not covered: sequences longer than the depth bound.",
     budget=dict(quick=600, thorough=7200),
     rule="all operation sequences of the stated depth; distinct_nontrivial = distinct outcome signatures (hash of handles "
          "returned, cancel results and the order in which events ran); states = distinct abstract queue contents reached",
     assumptions=["start times -5, 0 and 3 stand for 'any start time'"])


# ----------------------------------------------------------------------------- DES driver jobs
def des(name, monitor, bmax, deadline=300, bmin=0, **opts):
    o = dict(opts)
    o["monitor"] = monitor
    # the driver only generates programs that respect the documented preconditions, so a library abort, a
    # sanitizer report or a signal in one of them is a failure of the library in the behaviour under check
    # (and ends the exploration of that branch): it is reported as a violation, signature crash:...
    return dict(name=name, harness="des", opts=o, bound_min=bmin, bound_max=bmax, deadline=deadline,
                run_timeout=20, crash_is_violation=True)


def deep(job, bmax, xb=3, deadline=2400):
    """the same configuration explored deeper with visited-state pruning, after a cross-check at bound xb"""
    return dict(job, name=job["name"] + "-deep-b%d" % bmax, bound_min=bmax, bound_max=bmax, prune_xcheck=xb,
                state_bits=25, deadline=deadline)


DES_ASSUME = ["process programs are generated by the driver's validity predicate (documented preconditions only)",
              "durations are drawn from {0,1,2} on an integer clock starting at 0: coincidences on one instant are forced; the *-fractional-clock jobs of C04, C06 and C14 repeat a configuration on a clock that starts at -0.15 and moves in steps of 0.1; other time values are not explored",
              "deviation bound: executions departing from the canonical script in more than B choices are not explored"]
DES_NOTE = ("Trusted: the driver (harness/des.c), the monitor for this property (harness/mon_*.inc), the explorer. "
            "The explored transition system is the real library; nothing is modelled separately.")


# ----------------------------------------------------------------------------- C05
HOG_OPS = "racq0,rrel0,hold0,hold1,int0,int1,exit"


# a holder that is preempted and, in the same instant, interrupted by an event of higher priority (which runs first)
PRE_INT = des("p3-preempt-then-interrupt", "mutex", 3, procs=3, prios="0,1,2", budget=5, res=1,
              ops="racq0,rrel0,rpre0,hold0,hold1,int0,int0h,int1h,prio0.1,prio0.-1,exit",
              script0="racq0,hold2,rrel0", script1="hold1,hold1", script2="hold1,rpre0,prio0.1,int0h,hold1")


# a holder that waits for another process (or an event) while holding, and loses the resource in the very instant in
# which what it waits for happens
PRE_WAIT = des("p3-preempted-while-awaiting", "mutex", 3, procs=3, prios="0,2,1", budget=4, res=1,
               ops="racq0,rrel0,rpre0,waitp1,waite0,evsched1,hold0,hold1,int0,exit,return",
               script0="racq0,waitp1,rrel0", script1="hold1,return", script2="hold1,rpre0,hold1")


# every way in which a holder's life can end while it holds (exit, return, stopped by another, stopping itself)
END_HOLDING = des("p3-holder-ends-every-way", "mutex", 3, procs=3, prios="0,1,2", budget=4, res=1,
                  ops="racq0,rrel0,rpre0,hold0,hold1,stopself,exit,return,stop0,stop2,int0",
                  script0="racq0,hold1,stopself", script1="hold0,racq0,hold1,rrel0", script2="hold1,rpre0,stopself")


def c05_jobs(tier):
    ops = "racq0,rrel0,rpre0,hold0,hold1,tadd1,tadd1u,int0,int1,int2,stop1,exit,prio0.2,prio2.0"
    if tier == "quick":
        return [
            des("p3-loop", "mutex", 3, procs=3, prios="0,1,2", budget=4, res=1, ops=ops,
                script="racq0,hold1,rrel0,racq0"),
            des("p3-eqprio", "mutex", 3, procs=3, prios="0,0,0", budget=4, res=1, ops=ops,
                script="racq0,hold1,rrel0,racq0"),
            des("p3-preempt", "mutex", 3, procs=3, prios="0,1,2", budget=4, res=1, ops=ops,
                script="rpre0,hold1,rrel0,rpre0"),
            des("p2-two-resources", "mutex", 3, procs=2, prios="0,1", budget=5, res=2,
                ops="racq0,rrel0,racq1,rrel1,rpre0,rpre1,hold0,hold1,int0,int1,exit",
                script="racq0,racq1,hold1,rrel0,rrel1"),
            # holders and waiters of the resource that are preempted out of a pool at the same time
            des("p3-with-pool", "mutex", 3, procs=3, prios="0,1,2", budget=4, res=1, pool=2,
                ops="racq0,rrel0,rpre0,pacq1,pacq2,ppre2,prel1,hold0,hold1,int0,exit",
                script0="pacq2,racq0,hold2", script1="hold1,racq0,hold1", script2="hold1,ppre2,hold1"),
            # a waiter that loses the hand-over race to a re-acquiring releaser twice in a row
            des("p2-hog", "mutex", 3, procs=2, prios="0,0", budget=8, res=1, ops=HOG_OPS,
                script0="racq0,hold1,rrel0,racq0,hold1,rrel0,racq0,hold1", script1="racq0,hold1,rrel0"),
            PRE_INT, PRE_WAIT, END_HOLDING,
        ]
    j1 = des("p3-loop", "mutex", 4, 1500, procs=3, prios="0,1,2", budget=5, res=1, ops=ops,
             script="racq0,hold1,rrel0,racq0,hold1")
    j2 = des("p3-eqprio", "mutex", 4, 1500, procs=3, prios="0,0,0", budget=5, res=1, ops=ops,
             script="racq0,hold1,rrel0,racq0,hold1")
    return [
        deep(j1, 6), deep(j2, 6), PRE_INT, PRE_WAIT, END_HOLDING,
        des("p3-loop", "mutex", 4, 1500, procs=3, prios="0,1,2", budget=5, res=1, ops=ops,
            script="racq0,hold1,rrel0,racq0,hold1"),
        des("p3-eqprio", "mutex", 4, 1500, procs=3, prios="0,0,0", budget=5, res=1, ops=ops,
            script="racq0,hold1,rrel0,racq0,hold1"),
        des("p4-preempt", "mutex", 3, 1500, procs=4, prios="0,1,2,1", budget=4, res=1,
            ops=ops + ",int3,stop3", script="rpre0,hold1,rrel0,rpre0"),
        des("p3-two-resources", "mutex", 4, 1500, procs=3, prios="0,1,1", budget=5, res=2,
            ops="racq0,rrel0,racq1,rrel1,rpre0,rpre1,hold0,hold1,tadd1,int0,int1,int2,stop1,exit",
            script="racq0,racq1,hold1,rrel0,rrel1"),
        des("p3-hog", "mutex", 3, 1500, procs=3, prios="0,0,1", budget=11, res=1, ops=HOG_OPS + ",int2,tadd1",
            script0="racq0,hold1,rrel0,racq0,hold1,rrel0,racq0,hold1,rrel0,racq0,hold1", script1="racq0,hold1,rrel0",
            script2="hold1,racq0,hold1,rrel0"),
    ]


spec("C05", jobs=c05_jobs,
     technique="explicit-state search over process programs through the real dispatcher (choice-driven interpreters, iterated deviation bound), invariant checked in every reached state",
     level_text="Three to four simulated processes with a menu of acquire/preempt/release/hold/timer/interrupt/stop/exit/"
                "priority operations on one or two real cmb_resource objects; every choice sequence within the deviation "
                "bound is executed on the real library; after every library call and every dispatcher event the monitor "
                "compares holder, in-use, available, held-by and each process's own record with the holder implied by the "
                "call history, and flags any second successful acquire. Scripted 'hog' configurations make one waiter lose the hand-over "
                "race to a re-acquiring releaser two and three times in a row (re-check loops need more than one iteration).",
     level_note=DES_NOTE, budget=dict(quick=900, thorough=7200),
     rule="executions = distinct choice sequences within the deviation bound; distinct_nontrivial = distinct outcome signatures "
          "(hash of every (process, call, return value, time)); states = distinct canonical library+driver states at observation points",
     assumptions=DES_ASSUME)


# ----------------------------------------------------------------------------- C08
def c08_jobs(tier):
    b = 3 if tier == "quick" else 4
    dl = 300 if tier == "quick" else 1500
    L = 4 if tier == "quick" else 5
    return [
        des("resource", "progress", b, dl, procs=3, prios="0,1,2", budget=L, res=1,
            ops="racq0,rrel0,rpre0,hold0,hold1,tadd1,tadd1u,int0,int1,int2,stop1,stop0,exit",
            script="racq0,hold1,rrel0"),
        des("pool", "progress", b, dl, procs=3, prios="0,1,2", budget=L, pool=3,
            ops="pacq1,pacq2,ppre2,prel1,prel2,hold0,hold1,tadd1,tadd1u,int0,int1,stop0,stop1,exit",
            script="pacq2,hold1,prel2"),
        des("buffer", "progress", b, dl, procs=3, prios="0,1,1", budget=L, buf=3,
            ops="bput1,bput2,bput5,bget1,bget2,bget5,hold0,hold1,tadd1,tadd1u,int0,int1,stop0,stop1,exit",
            script0="bput2,hold1,bput2", script1="bget1,hold1,bget2", script2="bget2,bput1"),
        des("objectqueue", "progress", b, dl, procs=3, prios="0,1,1", budget=L, oq=1,
            ops="oqput0,oqget,hold0,hold1,tadd1,tadd1u,int0,int1,stop0,stop1,exit",
            script0="oqput0,oqput0,hold1", script1="oqget,hold1,oqget", script2="oqget,oqput0"),
        des("objectqueue-cap2-p4", "progress", b, dl, procs=4, prios="0,0,1,1", budget=3, oq=2,
            ops="oqput0,oqget,hold0,hold1,tadd1,tadd1u,int0,int1,stop0,exit",
            script0="oqput0,oqput0,oqput0", script1="oqput0,oqput0", script2="hold1,oqget,oqget", script3="hold1,oqget"),
        des("priorityqueue-cap2-p4", "progress", b, dl, procs=4, prios="0,0,1,1", budget=3, pq=2,
            ops="pqput0,pqput1,pqget,pqcancel,hold0,hold1,tadd1,tadd1u,int0,int1,stop0,exit",
            script0="pqput0,pqput1,pqput0", script1="pqput1,pqput0", script2="hold1,pqget,pqget", script3="hold1,pqget"),
        des("buffer-cap2-p4", "progress", b, dl, procs=4, prios="0,0,1,1", budget=3, buf=2,
            ops="bput1,bput2,bget1,bget2,hold0,hold1,tadd1,tadd1u,int0,int1,stop0,exit",
            script0="bput2,bput1", script1="bput1,bput1", script2="hold1,bget1,bget1", script3="hold1,bget1"),
        des("pool-cap2-p4", "progress", b, dl, procs=4, prios="0,0,1,1", budget=3, pool=2,
            ops="pacq1,pacq2,prel1,prel2,hold0,hold1,tadd1,tadd1u,int0,int1,stop0,exit",
            script0="pacq2,hold1,prel1,prel1", script1="pacq1,hold1", script2="pacq1,hold1", script3="hold1,pacq1"),
        # amounts in the 64-bit range (a pool of bytes): 4 Gi and 8 Gi units
        des("pool-huge", "progress", b, dl, procs=3, prios="0,1,1", budget=4, pool=8589934592,
            ops="pacq4294967296,pacq8589934592,pacq1,prel4294967296,prel1,hold0,hold1,tadd1,tadd1u,int1,stop0,exit",
            script0="pacq8589934592,hold1,prel4294967296,hold1", script1="pacq4294967296,hold1", script2="hold1,pacq4294967296"),
        des("resource-and-pool", "progress", b, dl, procs=3, prios="0,1,2", budget=4, res=1, pool=2,
            ops="racq0,rrel0,rpre0,pacq1,pacq2,ppre2,prel1,prel2,hold0,hold1,int0,stop0,exit",
            script0="pacq2,racq0,hold2", script1="hold1,racq0,hold1", script2="hold1,ppre2,hold1"),
        # those who wait behind a relay of conditions (the second condition observes the first, which observes the
        # resource) or at a condition that observes a buffer's two guards, for a state only the object's own changes bring
        des("relay-of-conditions", "progress", b, dl, procs=3, prios="0,1,2", budget=4, res=1, cond=1, subscribe="csub,chain",
            ops="racq0,rrel0,cwait3,cwaitb3,hold0,hold1,exit,stop0,int1", script0="racq0,hold1,rrel0",
            script1="cwaitb3,hold1", script2="hold2,cwait3,hold1"),
        des("condition-on-buffer", "progress", b, dl, procs=3, prios="0,1,2", budget=4, buf=3, cond=1, subscribe="buf",
            ops="bput1,bput2,bget1,bget2,cwait5,cwait6,hold0,hold1,exit,int1", script0="bput3,hold1,bget2,hold1",
            script1="cwait5,hold1", script2="hold2,cwait6,hold1"),
        # a waiter for whom somebody else arms a timer while it waits (a deadline given from outside), then the object
        # becomes available before that timer fires - or the timer fires first
        des("deadline-from-outside", "progress,notif", b, dl, procs=3, prios="0,0,1", budget=4, res=1, buf=2,
            ops="racq0,rrel0,bget1,bput1,hold0,hold1,hold2,taddo0,taddo1,tadd1,int0,exit",
            script0="racq0,hold1,rrel0", script1="racq0,hold1,rrel0", script2="hold0,taddo1,hold1"),
        # those who wait for a resource through an observing condition: two conditions observe the same guard and are
        # subscribed and unsubscribed in every order; a release (or the holder's end) reaches every condition still subscribed
        des("two-observers", "progress,condition", b, dl, procs=3, prios="0,1,2", budget=6, cond=1, res=1,
            ops="csub,cunsub,csubb,cunsubb,cwait3,racq0,rrel0,hold0,hold1,exit",
            script0="racq0,csubb,csub,cunsubb,hold1,rrel0", script1="hold0,cwait3,hold1", script2="hold1,cwait3,hold1"),
        des("priorityqueue", "progress", b, dl, procs=3, prios="0,1,1", budget=L, pq=1,
            ops="pqput0,pqput1,pqget,pqcancel,hold0,hold1,tadd1,tadd1u,int0,int1,stop0,stop1,exit",
            script0="pqput0,pqput1,hold1", script1="pqget,hold1,pqget", script2="pqget,pqput0"),
    ]


spec("C08", jobs=c08_jobs,
     technique="explicit-state search over process programs through the real dispatcher; invariant 'first waiter's demand unsatisfied' evaluated at every instant boundary and at quiescence",
     level_text="For each guard-based object type, every interleaving (within the deviation bound) of releases/puts/gets with "
                "arrivals, timeouts, interrupts, preemptions and stops is executed; whenever the clock is about to advance or "
                "the event queue is empty the monitor evaluates, for every waiting list, the first waiter's own stored demand "
                "function on the real object: 'true' means a process is parked although it could be served.",
     level_note=DES_NOTE, budget=dict(quick=1200, thorough=7200),
     rule="executions = distinct choice sequences within the deviation bound, per object type; distinct_nontrivial = distinct outcome signatures",
     assumptions=DES_ASSUME)


# ----------------------------------------------------------------------------- C04
C04_OPS = ("hold0,hold1,hold2,tadd1,tadd2u,tset1u,tcancel0,tclear,yield,resume0,resume1s,waitp0,waitp1,"
           "int0,int1,int1h,stop0,stop1,stopself,exit,evsched1,waite0,evcancel0")


def c04_jobs(tier):
    b = 3 if tier == "quick" else 4
    dl = 300 if tier == "quick" else 1800
    jobs = [
        des("core-p2", "notif", b, dl, procs=2, prios="0,0", budget=3 if tier == "quick" else 4, ops=C04_OPS,
            script0="hold1,hold1", script1="hold2,hold1"),
        des("core-p2-prio", "notif", b, dl, procs=2, prios="1,0", budget=3, ops=C04_OPS,
            script0="tadd1,hold2", script1="waitp0,hold1"),
        des("guards-p3", "notif", b, dl, procs=3, prios="0,1,0", budget=3, res=1, pool=2, buf=2, oq=1, pq=1, cond=1,
            ops="hold0,hold1,tadd1,racq0,rpre0,rrel0,pacq1,pacq2,ppre1,prel1,bput1,bput3,bget1,bget3,oqput0,oqget,"
                "pqput0,pqget,cwait0,csig,setx1,int0,int1,int2,stop1,exit",
            script0="racq0,hold1,rrel0", script1="tadd1,racq0,hold1", script2="tadd1,bget1,hold1"),
        des("growth-p2", "notif", 2, dl, procs=2, prios="0,0", budget=3, ops=C04_OPS, preload=7,
            script0="hold1,hold1", script1="hold2,hold1"),
    ]
    # a condition waiter whose timer (standard and application-defined signal) expires in the instant of the signal
    jobs.append(des("condition-timer-p3", "notif", b, dl, procs=3, prios="1,0,0", budget=3, cond=1,
                    ops="hold0,hold1,tadd1,tadd1u,tadd2u,cwait0,cwait1,csig,setx1,setx2,int1,exit",
                    script0="hold1,setx1,csig", script1="tadd1u,cwait0,hold1", script2="tadd1,cwait0,hold1"))
    # waiters with a timer due later that are thrown out of the queue by cancel / remove: the timers stay armed
    jobs.append(des("condition-cancel-p3", "notif", b, dl, procs=3, prios="1,0,0", budget=3, cond=1, res=1,
                    ops="hold0,hold1,hold2,tadd1,tadd2,tadd2u,cwait0,cwait1,csig,setx1,ccancel1,ccancel2,cremove1,int1,exit",
                    script0="hold1,ccancel1,ccancel2", script1="tadd2u,cwait0,hold2", script2="tadd2,cwait1,hold2"))
    # timers of a suspended process cleared by somebody else while it waits for an event, a process or a resource
    jobs.append(des("timers-cleared-by-others-p3", "notif", b, dl, procs=3, prios="0,0,1", budget=3, res=1,
                    ops="hold0,hold1,hold2,tadd1,tadd2u,tclro0,tclro1,evsched2,waite0,waitp2,racq0,rrel0,int1,exit",
                    script0="evsched2,tadd1,waite0", script1="tadd2u,waitp2,hold1", script2="hold0,tclro0,hold2"))
    # several processes waiting for the same event, which is cancelled / executes / is rescheduled by a third
    jobs.append(des("event-waiters-p3", "notif", b, dl, procs=3, prios="0,0,1", budget=3,
                    ops="hold0,hold1,tadd1,evsched1,evsched2,waite0,waite1,evcancel0,evcancel1,int1,int2,stop1,exit",
                    script0="evsched2,hold1,evcancel0", script1="waite0,hold1", script2="waite0,hold1"))
    # ... cancelled by pattern instead of by handle: the waiters are told all the same
    jobs.append(des("event-waiters-pattern-cancel-p3", "notif", b, dl, procs=3, prios="0,0,1", budget=3,
                    ops="hold0,hold1,tadd1,tadd2u,evsched1,evsched2,waite0,waite1,evcancel0p,evcancel1p,evcancel0,int1,exit",
                    script0="evsched2,hold1,evcancel0p", script1="tadd2u,waite0,hold1", script2="waite0,hold1"))
    # the same on a clock that starts below zero and moves in steps of 0.1 (sums that are not exact in binary: instants
    # that coincide on the integer clock may now lie one unit in the last place apart)
    jobs.append(des("core-p2-fractional-clock", "notif", b, dl, procs=2, prios="0,0", budget=3, ops=C04_OPS,
                    script0="hold1,hold1", script1="hold2,hold1", tscale="0.1", t0="-0.15"))
    jobs.append(des("guards-p3-fractional-clock", "notif", b, dl, procs=3, prios="0,1,0", budget=3, res=1, pool=2, buf=2, oq=1,
                    pq=1, cond=1, tscale="0.1", t0="-0.15",
                    ops="hold0,hold1,hold2,tadd1,tadd2,racq0,rrel0,pacq1,pacq2,prel1,bput1,bget1,bget3,oqput0,oqget,cwait0,csig,setx1,int1,exit",
                    script0="racq0,hold1,rrel0", script1="tadd1,racq0,hold1", script2="tadd2,bget1,hold1"))
    # ... and with steps of three to seven units across zero (the clock after a step is the time the event was scheduled
    # for, not the old clock plus the difference)
    jobs.append(des("core-p2-long-steps", "notif", b, dl, procs=2, prios="0,0", budget=3, tscale="0.1", t0="-0.15",
                    ops="hold0,hold1,hold3,hold5,hold7,tadd3,tadd5u,yield,resume0,int0,waitp1,exit,evsched3,waite0",
                    script0="hold3,hold1", script1="hold5,hold1"))
    # the awaited process ends and is started again by a third in the same instant, before the waiter's own timer fires:
    # whether a wake-up is still pending is not told by the awaited process's state
    jobs.append(des("awaited-restarted-same-instant-p3", "notif", b, dl, procs=3, prios="0,1,2", budget=4,
                    ops="hold0,hold1,hold2,tadd1,tadd1u,tadd2,waitp1,start1,int0,return,exit",
                    script0="tadd1,waitp1,hold1,hold2", script1="hold1,return", script2="waitp1,start1,hold1"))
    if tier != "quick":
        jobs.append(des("core-p3", "notif", 3, dl, procs=3, prios="0,0,1", budget=3,
                        ops=C04_OPS + ",waitp2,int2,stop2,resume2", script0="hold1,hold1", script1="hold2,hold1",
                        script2="waitp0,hold1"))
    return jobs


spec("C04", jobs=c04_jobs,
     technique="explicit-state search over process programs through the real dispatcher; reference model = per-process set of undelivered notifications, checked at every return of a blocking call, every instant boundary and at quiescence",
     level_text="Two or three simulated processes choose among hold, timers (add/set/cancel/clear), yield/resume, wait-for-process, "
                "wait-for-event, interrupts, stops, exit and one blocking call per guard type; all choice sequences within the "
                "deviation bound run on the real library. The monitor keeps, per process, the set of undelivered notifications "
                "(timers, interrupts, resumes, preemptions, cancellations, 'awaited thing happened') and checks: hold success at "
                "start+d exactly (R1); every other return is justified by exactly one notification due now (R2/R3); if after a return "
                "something of the finished call is left behind - pending events, queue memberships, registrations - the process "
                "runs only sentinel waits (long hold / bare yield / never-true condition, enumerated) and any disturbance of those "
                "is the violation (R4, semantic: an inert leftover is not one); nobody is left suspended past the instant in which "
                "what it waits for happened (R5).",
     level_note=DES_NOTE + " Latitude: several notifications due in one instant may be delivered in any order; timers and "
                "other pending notifications become optional once an interrupt or preemption has been delivered.",
     budget=dict(quick=1500, thorough=7200),
     rule="executions = distinct choice sequences within the deviation bound; distinct_nontrivial = distinct outcome signatures",
     assumptions=DES_ASSUME + ["a second cmb_process_resume() to a process that has an undelivered resume is treated as an invalid program"])


# ----------------------------------------------------------------------------- C06
def c06_jobs(tier):
    b = 3 if tier == "quick" else 4
    dl = 200 if tier == "quick" else 1200
    common = "hold0,hold1,tadd1,int0,int1,int2,stop1,prio0.2,prio1.0,prio2.1,exit"
    jobs = [
        des("resource", "order", b, dl, procs=4, prios="0,1,2,1", budget=3, res=1,
            ops="racq0,rrel0," + common + ",int3,prio3.2", script="racq0,hold1,rrel0"),
        des("resource-extremes", "order", 2, dl, procs=4, prios="-9223372036854775808,0,9223372036854775807,0",
            budget=3, res=1, ops="racq0,rrel0,hold0,hold1,int1", script="racq0,hold1,rrel0"),
        # process objects placed so that their addresses (the keys of the waiting list) all hash to one slot
        des("resource-colliding-keys", "order", b, dl, procs=4, prios="0,1,2,1", budget=3, res=1, collide=1,
            ops="racq0,rrel0," + common + ",int3,prio3.2", script="racq0,hold1,rrel0"),
        des("buffer-colliding-keys", "order", b, dl, procs=4, prios="0,1,2,1", budget=3, buf=2, collide=1,
            ops="bput1,bput2,bget1,bget2," + common, script0="bput2,hold1,bput2", script1="bget1,hold1,bget2",
            script2="bget2,hold1", script3="hold1,bget1"),
        # waiting times on a clock that starts below zero and moves in steps of 0.1
        des("resource-fractional-clock", "order", b, dl, procs=4, prios="0,1,2,1", budget=3, res=1, tscale="0.1", t0="-0.15",
            ops="racq0,rrel0,hold0,hold1,hold2,tadd1,int0,int1,prio0.2,prio1.0,prio3.2,exit", script="racq0,hold1,rrel0"),
        # two waiters served by ONE release (two wake-ups under way at once), priorities more than 32 bits apart
        des("pool-two-grants-wide-priorities", "order", 2, dl, procs=4, prios="9223372036854775807,4294967296,1,-9223372036854775808", budget=4, pool=2,
            ops="pacq1,pacq2,prel1,prel2,hold0,hold1,int1", script0="pacq2,hold1,prel1,prel1", script1="pacq1,hold1",
            script2="pacq1,hold1", script3="pacq1,hold1"),
        des("objectqueue-two-grants-wide-priorities", "order", 2, dl, procs=4, prios="-5,8589934592,3,-1", budget=3, oq="max",
            ops="oqput0,oqget,hold0,hold1", script0="hold1,oqput0,oqput0,oqput0", script1="oqget,hold1",
            script2="oqget,hold1", script3="oqget,hold1"),
        # neighbouring priorities where a double (or a difference) cannot tell them apart
        des("resource-adjacent-high", "order", 2, dl, procs=4,
            prios="0,9223372036854775806,9223372036854775807,9007199254740993",
            budget=3, res=1, ops="racq0,rrel0,hold0,hold1,int1", script="racq0,hold1,rrel0"),
        des("resource-adjacent-low", "order", 2, dl, procs=4,
            prios="0,-9223372036854775808,-9223372036854775807,-9007199254740993",
            budget=3, res=1, ops="racq0,rrel0,hold0,hold1,int1", script="racq0,hold1,rrel0"),
        des("condition-adjacent", "order", 2, dl, procs=4,
            prios="0,9007199254740992,9007199254740993,-9223372036854775807",
            budget=3, cond=1, ops="cwait0,cwait1,csig,setx1,setx2,hold0,hold1", script0="hold1,setx2,csig",
            script1="cwait0,hold1", script2="cwait1,hold1", script3="cwait0,hold1"),
        des("pool", "order", b, dl, procs=4, prios="0,1,2,1", budget=3, pool=2,
            ops="pacq1,pacq2,prel1,prel2," + common, script="pacq2,hold1,prel2"),
        des("buffer", "order", b, dl, procs=4, prios="0,1,2,1", budget=3, buf=2,
            ops="bput1,bput2,bget1,bget2," + common, script0="bput2,hold1,bput2", script1="bget1,hold1",
            script2="bget2,hold1", script3="bget1,bput1"),
        des("objectqueue", "order", b, dl, procs=4, prios="0,1,2,1", budget=3, oq=1,
            ops="oqput0,oqget," + common, script0="oqput0,hold1,oqput0", script1="oqget,hold1",
            script2="oqget,hold1", script3="oqget,oqput0"),
        des("priorityqueue", "order", b, dl, procs=4, prios="0,1,2,1", budget=3, pq=1,
            ops="pqput0,pqput1,pqget," + common, script0="pqput0,hold1,pqput1", script1="pqget,hold1",
            script2="pqget,hold1", script3="pqget,pqput0"),
        des("condition", "order", b, dl, procs=4, prios="0,1,2,1", budget=3, cond=1,
            ops="cwait0,cwait1,csig,setx1,setx2,setx0," + common, script0="hold1,setx2,csig", script1="cwait0,hold1",
            script2="cwait1,hold1", script3="cwait0,hold1"),
        # a waiter that is woken, loses the race to a re-acquiring releaser and queues again inside the same call:
        # it has been waiting since its call and keeps its place ahead of later arrivals
        des("resource-lost-race", "order", 2, dl, procs=3, prios="0,0,0", budget=8, res=1,
            ops="racq0,rrel0,hold0,hold1,hold2,int1,exit",
            script0="racq0,hold2,rrel0,racq0,hold2,rrel0,hold2", script1="racq0,hold1,rrel0", script2="hold1,racq0,hold1,rrel0"),
        des("objectqueue-lost-race", "order", 2, dl, procs=3, prios="0,0,0", budget=8, oq=1,
            ops="oqput0,oqget,hold0,hold1,hold2,int1,exit",
            script0="hold2,oqput0,oqget,hold2,oqput0,hold2", script1="oqget,hold1", script2="hold1,oqget,hold1"),
        # a producer / consumer whose load is only partly served and who queues again for the rest inside the same call:
        # it keeps its place ahead of those who arrived after it (all five multi-step calls: buffer put and get, pool acquire)
        des("buffer-put-partial", "order", 2, dl, procs=4, prios="0,0,0,0", budget=6, buf=2,
            ops="bput1,bput2,bget1,hold0,hold1,hold2,hold3,exit",
            script0="bput2,hold3", script1="hold1,bput2,hold1", script2="hold2,bput1,hold1",
            script3="hold3,bget1,hold1,bget1,hold1,bget1"),
        des("buffer-get-partial", "order", 2, dl, procs=4, prios="0,0,0,0", budget=6, buf=2,
            ops="bput1,bget1,bget2,hold0,hold1,hold2,hold3,exit",
            script0="hold3", script1="hold1,bget2,hold1", script2="hold2,bget1,hold1",
            script3="hold3,bput1,hold1,bput1,hold1,bput1"),
        des("pool-acquire-partial", "order", 2, dl, procs=4, prios="0,0,0,0", budget=6, pool=2,
            ops="pacq1,pacq2,prel1,hold0,hold1,hold2,hold3,exit",
            script0="pacq2,hold3,prel1,hold1,prel1", script1="hold1,pacq2,hold1", script2="hold2,pacq1,hold1",
            script3="hold3"),
        # 7-17 waiters (the waiting list grows once or twice) x interrupt / stop / priority change / timeout / cancel of the
        # first, last or middle waiter: service order by priority, then arrival
        dict(name="waiters-7-17", harness="c10_ramps", opts=dict(mode="guardq", prop="c06"), bound_min=0, bound_max=0,
             deadline=300, crash_is_violation=True, recycle=200, run_timeout=60),
        # a condition observing a resource: waiters woken by a FORWARDED signal, with an unsatisfied waiter at the head
        des("condition-forwarded", "order", b, dl, procs=4, prios="0,0,0,2", budget=4, cond=1, res=1, subscribe="res",
            ops="cwait3,cwait0,racq0,rrel0,hold0,hold1,hold2,setx1,int1,prio1.2,exit",
            script0="racq0,hold2,hold1,rrel0", script1="hold1,cwait3,hold1", script2="hold2,cwait3,hold1",
            script3="hold2,hold1,cwait0"),
        des("condition-forwarded-csub", "order", b, dl, procs=4, prios="0,0,0,2", budget=4, cond=1, res=1, subscribe="csub",
            ops="cwait3,cwait0,racq0,rrel0,hold0,hold1,hold2,setx1,exit",
            script0="racq0,hold2,hold1,rrel0", script1="hold1,cwait3,hold1", script2="hold2,cwait3,hold1",
            script3="hold2,hold1,cwait0"),
        # every priority assignment to 6 (7) waiters x every leaver x {cancel, timeout} x two late arrivals: service order
        dict(name="guardorder-6", harness="c10_ramps", opts=dict(mode="guardorder", prop="c06", n=6), bound_min=0, bound_max=0,
             deadline=600, crash_is_violation=True, recycle=2000, run_timeout=60),
        # the same with all arrivals in one instant (ties in priority and waiting time are settled by order of arrival)
        dict(name="guardorder-6-same-instant", harness="c10_ramps", opts=dict(mode="guardorder", prop="c06", n=6, together=1),
             bound_min=0, bound_max=0, deadline=600, crash_is_violation=True, recycle=2000, run_timeout=60),
        des("ramp9", "order", 1, dl, procs=6, prios="0,1,2,1,0,2", budget=2, res=1,
            ops="racq0,rrel0,hold1,hold2,prio0.2,prio4.1", script="racq0,hold1"),
    ]
    if tier != "quick":
        jobs.append(dict(name="guardorder-8", harness="c10_ramps", opts=dict(mode="guardorder", prop="c06", n=8), bound_min=0,
                         bound_max=0, deadline=2400, crash_is_violation=True, recycle=2000, run_timeout=60))
        jobs.append(dict(name="guardorder-8-same-instant", harness="c10_ramps",
                         opts=dict(mode="guardorder", prop="c06", n=8, together=1), bound_min=0,
                         bound_max=0, deadline=2400, crash_is_violation=True, recycle=2000, run_timeout=60))
    return jobs


spec("C06", jobs=c06_jobs,
     technique="explicit-state search over process programs through the real dispatcher; ordering invariant evaluated at every step in which a waiter leaves a waiting list",
     level_text="Per guard type (resource, pool, buffer ends, object queue, priority queue, condition) four to six processes with "
                "priorities from {0,1,2}, the int64 extremes and neighbouring values at INT64_MAX, INT64_MIN and 2^53 arrive in the same or different instants, leave by grant, timeout, "
                "interrupt, stop, and change priorities while waiting. The monitor snapshots every waiting list after every call "
                "and event; when a suspended process leaves a list because it was served, no process that stays behind may have a "
                "higher current priority, or equal priority and an earlier start of waiting (the monitor's own observation); "
                "processes served by one signal must return in that order; after a priority change the list entry carries the new priority.",
     level_note=DES_NOTE + " Latitude: equal priority and equal start time - any order; a waiter that re-queues inside a greedy "
                "multi-step call starts a new stay; for conditions only waiters woken by the same signal are compared.",
     budget=dict(quick=1500, thorough=7200),
     rule="executions = distinct choice sequences within the deviation bound, per guard type; distinct_nontrivial = distinct outcome signatures",
     assumptions=DES_ASSUME)


# ----------------------------------------------------------------------------- C07
def c07_jobs(tier):
    b = 3 if tier == "quick" else 4
    dl = 300 if tier == "quick" else 1800
    ops = "pacq1,pacq2,pacq3,ppre1,ppre2,prel1,prel2,hold0,hold1,tadd1,int0,int1,int2,stop0,exit,prio0.2,prio2.0"
    jobs = [
        des("cap3-p3", "pool", b, dl, procs=3, prios="0,1,2", budget=4, pool=3, ops=ops, script="pacq2,hold1,prel2"),
        des("cap3-p3-preempt", "pool", b, dl, procs=3, prios="0,1,2", budget=4, pool=3, ops=ops,
            script0="pacq2,hold1,prel2", script1="pacq1,hold1,ppre2", script2="hold1,ppre3,hold1"),
        des("cap2-eqprio", "pool", b, dl, procs=3, prios="1,1,1", budget=4, pool=2, ops=ops, script="pacq1,hold1,pacq1,prel2"),
        # process objects whose addresses (the keys of the holders' list and of the waiting list) hash to one slot
        des("cap3-p3-colliding-keys", "pool", b, dl, procs=3, prios="0,1,2", budget=4, pool=3, ops=ops, collide=1,
            script0="pacq2,hold1,prel2", script1="pacq1,hold1,ppre2", script2="hold1,ppre3,hold1"),
    ]
    # 7-17 simultaneous holders (the holders' list grows once or twice) x preempt / priority change / stop of the first,
    # last or middle holder: holdings and amount in use
    jobs.append(dict(name="holders-7-17", harness="c10_ramps", opts=dict(mode="holders", prop="c07"), bound_min=0, bound_max=0,
                     deadline=300, crash_is_violation=True, recycle=200, run_timeout=60))
    # a waiter that loses the hand-over race to a re-acquiring releaser twice in a row
    jobs.append(des("cap2-hog", "pool", b, dl, procs=2, prios="0,0", budget=8, pool=2,
                    ops="pacq1,pacq2,prel1,prel2,hold0,hold1,int0,int1,exit",
                    script0="pacq2,hold1,prel2,pacq2,hold1,prel2,pacq2,hold1", script1="pacq2,hold1,prel2"))
    # holders parked in a bare yield (no awaitable entry) with a resume pending when they are preempted or stopped
    jobs.append(des("cap3-yield", "pool", b, dl, procs=3, prios="0,1,2", budget=4, pool=3,
                    ops="pacq1,pacq2,ppre2,ppre3,prel1,prel2,yield,resume0,resume1,hold0,hold1,int0,stop0,exit",
                    script0="pacq2,yield,prel2", script1="hold1,resume0,hold1", script2="hold1,ppre3,hold1"))
    # amounts in the 64-bit range (a pool of bytes)
    jobs.append(des("cap8Gi", "pool", b, dl, procs=3, prios="0,1,2", budget=4, pool=8589934592,
                    ops="pacq4294967296,pacq8589934592,pacq1,ppre4294967296,prel4294967296,prel1,hold0,hold1,int0,exit",
                    script0="pacq8589934592,hold1,prel4294967296", script1="pacq4294967296,hold1,prel4294967296",
                    script2="hold1,ppre4294967296,hold1"))
    # holdings in the upper half of the 64-bit range (2^63 + n units of a pool of 2^64 - 1)
    jobs.append(des("cap-max", "pool", b, dl, procs=3, prios="0,1,2", budget=4, pool="max",
                    ops="pacq1000h,pacq1,pacq400,ppre400,ppre1000h,prel400,prel600,prel1,prel1000h,hold0,hold1,int0,exit",
                    script0="pacq1000h,prel400,hold1,prel600", script1="pacq400,hold1,prel400",
                    script2="hold1,ppre400,hold1"))
    # a holder in the middle of a second acquire loses everything to a preemption and is interrupted (with a higher event
    # priority, so the interrupt arrives first) in the same instant
    jobs.append(des("cap2-preempt-then-interrupt", "pool", b, dl, procs=3, prios="0,1,2", budget=5, pool=2,
                    ops="pacq1,pacq2,ppre1,ppre2,prel1,hold0,hold1,int0,int0h,int1h,prio0.1,prio0.-1,exit",
                    script0="pacq1,pacq2,hold1", script1="pacq1,hold2,hold1", script2="hold1,ppre1,prio0.1,int0h,hold1"))
    # a holder of pool units AND a binary resource (acquired in either order) whose priority changes before somebody preempts
    jobs.append(des("cap3-reprioritised-holder", "pool", b, dl, procs=3, prios="0,1,2", budget=4, pool=3, res=1,
                    ops="pacq1,pacq2,ppre2,ppre3,prel1,racq0,rrel0,prio0.3,prio0.-1,prio2.0,hold0,hold1,exit",
                    script0="pacq2,racq0,hold2", script1="hold1,prio0.3,ppre2,hold1", script2="hold2,ppre3,hold1"))
    # a pool acquisition in progress that is ended by the preemption of a RESOURCE the caller holds
    jobs.append(des("cap2-with-resource", "pool", b, dl, procs=3, prios="0,1,2", budget=4, pool=2, res=1,
                    ops="pacq1,pacq2,ppre2,prel1,prel2,racq0,rpre0,rrel0,hold0,hold1,int0,exit",
                    script0="racq0,pacq2,hold1", script1="pacq1,hold2,hold2", script2="hold1,rpre0,hold2"))
    if tier != "quick":
        jobs.append(des("cap4-p4", "pool", 3, dl, procs=4, prios="0,1,2,3", budget=4, pool=4,
                        ops=ops + ",pacq4,ppre3,int3,stop3", script="pacq2,hold1,prel2"))
    return jobs


spec("C07", jobs=c07_jobs,
     technique="explicit-state search over process programs through the real dispatcher; conservation and exact-accounting invariants in every reached state",
     level_text="Three or four processes with distinct, equal and changing priorities acquire/preempt/release amounts 1-3 of a pool of "
                "capacity 2-4, with timeouts, interrupts, stops and exits landing inside multi-step acquisitions. After every call and "
                "event: in_use = sum of holdings <= capacity, available = capacity - in_use; success adds exactly n, an interrupted call "
                "leaves the old holding, release subtracts exactly n, preempted/ended processes hold nothing; units only ever leave a "
                "suspended process through a preempt call of a strictly higher-priority process, and the victim must get PREEMPTED "
                "before the clock advances.",
     level_note=DES_NOTE, budget=dict(quick=1500, thorough=7200),
     rule="executions = distinct choice sequences within the deviation bound; distinct_nontrivial = distinct outcome signatures",
     assumptions=DES_ASSUME)


# ----------------------------------------------------------------------------- C09
def c09_jobs(tier):
    b = 3 if tier == "quick" else 4
    dl = 300 if tier == "quick" else 1800
    ops = ("hold0,hold1,tadd1,tadd2,racq0,rrel0,pacq1,pacq2,prel1,waitp0,waitp1,waitp2,stop0,stop1,stop2,stopself,exit,"
           "return,int0,int1,start0,start1,yield,bget1,cwait0,oqget")
    return [
        des("mix-p3", "endoflife", b, dl, procs=3, prios="0,1,0", budget=4, res=1, pool=2, buf=1, oq=1, cond=1, ops=ops,
            script0="racq0,pacq1,tadd2,hold1", script1="waitp0,hold1", script2="waitp0,hold1"),
        des("blocked-p3", "endoflife", b, dl, procs=3, prios="0,0,1", budget=3, res=1, pool=2, buf=1, oq=1, cond=1, ops=ops,
            script0="racq0,hold2", script1="racq0,hold1", script2="hold1,stop1,start1"),
        des("selfstop-p2", "endoflife", b, dl, procs=2, prios="0,0", budget=4, res=1, pool=2, ops=ops,
            script0="racq0,pacq2,tadd1,stopself", script1="waitp0,racq0,hold1"),
        # waiters that line up before the process they wait for has even been started
        des("waiters-before-start-p3", "endoflife,notif", b, dl, procs=3, prios="0,0,1", budget=3, autostart=2,
            ops="hold0,hold1,waitp2,start2,stop2,tadd1,int0,exit,return,stopself",
            script0="waitp2,hold1", script1="hold1,start2,hold1", script2="hold1,exit"),
        # holdings obtained by preemption (resource and pool units) and by a hand-over while waiting, held when the end comes
        des("preemptor-ends-p3", "endoflife", b, dl, procs=3, prios="0,1,2", budget=4, res=1, pool=2,
            ops="racq0,rpre0,rrel0,pacq1,ppre1,ppre2,prel1,hold0,hold1,stop2,stopself,exit,return,start2,int2",
            script0="racq0,pacq2,hold2", script1="hold1,racq0,hold1", script2="hold1,rpre0,ppre1,exit"),
        # the waiter's side: its own timer (or an interrupt, or a resume) falls in the very instant in which the process it
        # waits for is stopped or ends; it is told once, and nothing of that wait can reach a later call
        des("waiter-timer-meets-end-p3", "endoflife,notif", b, dl, procs=3, prios="0,0,1", budget=4,
            ops="hold0,hold1,hold2,tadd1,tadd1u,tadd2,waitp0,stop0,stopself,exit,return,int1,yield,resume1",
            script0="hold2,hold1", script1="tadd1,waitp0,hold1,hold1", script2="hold1,stop0,hold1"),
        # what the ended process held is also offered to those who wait for it through an observing condition
        # (nobody queued at the resource or pool itself)
        des("observed-resource-p3", "endoflife,condition", b, dl, procs=3, prios="0,1,2", budget=3, res=1, cond=1,
            subscribe="res", ops="racq0,rrel0,cwait3,hold0,hold1,stop0,stopself,exit,return,int0",
            script0="racq0,hold1,exit", script1="cwait3,hold1", script2="hold1,stop0,hold1"),
        des("observed-pool-p3", "endoflife,condition", b, dl, procs=3, prios="0,1,2", budget=3, pool=2, cond=1,
            subscribe="pool", ops="pacq1,pacq2,prel1,cwait4,hold0,hold1,stop0,stopself,exit,return,int0",
            script0="pacq2,hold1,exit", script1="cwait4,hold1", script2="hold1,stop0,hold1"),
        # several holders of different amounts, one of them ends while a waiter wants more than is free
        des("pool-holders-p4", "endoflife", b, dl, procs=4, prios="0,1,2,1", budget=3, pool=6,
            ops="pacq1,pacq2,pacq3,prel1,hold0,hold1,stop0,stop1,stop2,stopself,exit,return,int0,waitp0",
            script0="pacq1,hold1,exit", script1="pacq3,hold2", script2="pacq2,hold1,stopself", script3="hold0,pacq3,hold1"),
        # the end comes from inside the dispatcher: the action of an event stops (or stops and starts again) one of the
        # one to four processes that wait for that very event (harness c10_ramps, mode evstop: every victim x every outcome)
        dict(name="ended-by-the-awaited-event", harness="c10_ramps", opts=dict(mode="evstop", prop="c09"), bound_min=0,
             bound_max=0, deadline=300, crash_is_violation=True, recycle=200, run_timeout=60),
    ]


spec("C09", jobs=c09_jobs,
     technique="explicit-state search over process programs through the real dispatcher; end-of-life postconditions checked in the state right after every end and at the boundary of that instant",
     level_text="A process is driven into every state named by the property (holding a resource and pool units, blocked in each kind "
                "of wait, timers armed, wake-ups pending, 0-2 waiters) and ended by return, exit, stop-by-other and stop-self, then "
                "optionally restarted. The monitor checks: every waiter returns once, at that instant, with SUCCESS or STOPPED as the "
                "route demands; nothing is held or queued by the ended process, no event addressed to it survives, status FINISHED "
                "and exit value as given; what it held is passed on within the instant; it never runs again unless restarted, and a "
                "restart enters the function from the top with empty lists.",
     level_note=DES_NOTE, budget=dict(quick=1500, thorough=7200),
     rule="executions = distinct choice sequences within the deviation bound; distinct_nontrivial = distinct outcome signatures",
     assumptions=DES_ASSUME)


# ----------------------------------------------------------------------------- C11
def c11_jobs(tier):
    b = 3 if tier == "quick" else 4
    dl = 300 if tier == "quick" else 1500
    ops = "bput1,bput2,bput5,bget0,bget1,bget2,bget5,hold0,hold1,tadd1,int0,int1,int2,int3,stop0,stop2,exit"
    jobs = [
        des("cap3", "buffer", b, dl, procs=4, prios="0,0,1,1", budget=3, buf=3, ops=ops,
            script0="bput2,hold1,bput5", script1="bput5,hold1", script2="bget1,hold1,bget5", script3="bget5,hold1"),
        des("cap1", "buffer", b, dl, procs=4, prios="0,1,0,1", budget=3, buf=1, ops=ops,
            script0="bput2,hold1,bput1", script1="bput1,hold1", script2="bget2,hold1,bget1", script3="bget1,hold1"),
        des("cap10-huge", "buffer", b, dl, procs=3, prios="0,0,1", budget=3, buf=10,
            ops="bput5,bput0m,bget1,bget5,hold1,tadd1,int0,int1,exit",
            script0="bput5,bput0m,hold1", script1="hold1,bget1,int0", script2="hold2,bget5"),
        des("unlimited", "buffer", b, dl, procs=3, prios="0,0,1", budget=3, buf="max",
            ops="bput1,bput5,bput0m,bget1,bget5,bget0m,hold1,tadd1,int0,int1,int2,exit",
            script0="bput0m,hold1,bput5", script1="bget5,hold1", script2="bget0m,hold1"),
        # a waiting getter / putter that is woken twice and finds the buffer emptied / refilled each time
        des("cap2-thief-get", "buffer", b, dl, procs=2, prios="0,0", budget=7, buf=2,
            ops="bput1,bput2,bget1,bget2,hold0,hold1,int0,int1,exit",
            script0="hold1,bput2,bget2,hold1,bput2,bget2,hold1", script1="bget2,hold1"),
        # a transfer in progress ended by the preemption of a resource the caller holds
        des("cap2-with-resource", "buffer", b, dl, procs=3, prios="0,1,2", budget=4, buf=2, res=1,
            ops="bput1,bput2,bput5,bget1,bget2,bget5,racq0,rpre0,rrel0,hold0,hold1,int0,exit",
            script0="racq0,bput5,hold1", script1="hold2,bget1,hold1", script2="hold1,rpre0,hold2"),
        # a timeout that falls in the very instant of an offer (the partner runs first, the timer fires before the wake-up
        # of the offer): the call ends there and then with what it had; monitored for the accounting and for the notification
        des("cap2-timeout-meets-offer-get", "buffer,notif", b, dl, procs=3, prios="0,1,1", budget=4, buf=2,
            ops="bput1,bput2,bget1,bget2,bget5,hold0,hold1,hold2,tadd1,tadd1u,tadd2,int0,exit",
            script0="tadd1,bget2,hold1", script1="hold1,bput1,hold1", script2="hold2,bput1,hold1"),
        des("cap2-timeout-meets-offer-put", "buffer,notif", b, dl, procs=3, prios="0,1,1", budget=4, buf=2,
            ops="bput1,bput2,bput5,bget1,bget2,hold0,hold1,hold2,tadd1,tadd1u,tadd2,int0,exit",
            script0="bput2,tadd1,bput2,hold1", script1="hold1,bget1,hold1", script2="hold2,bget1,hold1"),
        des("cap2-thief-put", "buffer", b, dl, procs=2, prios="0,0", budget=8, buf=2,
            ops="bput1,bput2,bget1,bget2,hold0,hold1,int0,int1,exit",
            script0="bput2,hold1,bget2,bput2,hold1,bget2,bput2,hold1", script1="bput2,hold1"),
    ]
    return jobs


spec("C11", jobs=c11_jobs,
     technique="explicit-state search over process programs through the real dispatcher; every level change attributed to the call in progress, accounting checked at every return",
     level_text="Two producers and two consumers with amounts {0,1,2,5 (> capacity), 2^64-2} on buffers of capacity 1, 3 and unlimited, "
                "with timeouts, interrupts and stops between partial transfers. Every change of the real level between two observation "
                "points is attributed to the put/get in progress of the process that ran; at each return the attributed total must equal "
                "the request (SUCCESS) or what the out-parameter reports (interrupted); 0 <= level <= capacity throughout.",
     level_note=DES_NOTE, budget=dict(quick=1500, thorough=7200),
     rule="executions = distinct choice sequences within the deviation bound; distinct_nontrivial = distinct outcome signatures",
     assumptions=DES_ASSUME)


# ----------------------------------------------------------------------------- C12
def c12_jobs(tier):
    b = 3 if tier == "quick" else 4
    dl = 300 if tier == "quick" else 1500
    oops = "oqput0,oqput0n,oqput0d,oqget,hold0,hold1,tadd1,int0,int1,int2,int3,stop0,stop2,exit"
    pops = "pqput0,pqput1,pqput-1,pqget,pqcancel,pqreprio2,pqreprio-2,hold0,hold1,tadd1,int0,int1,int2,int3,stop0,stop2,exit"
    jobs = []
    for cap in ("1", "2", "max"):
        jobs.append(des("objectqueue-cap" + cap, "queue", b, dl, procs=4, prios="0,0,1,1", budget=3, oq=cap, ops=oops,
                        script0="oqput0,oqput0n,hold1", script1="oqput0d,hold1,oqput0", script2="oqget,hold1,oqget",
                        script3="oqget,oqget"))
        jobs.append(des("priorityqueue-cap" + cap, "queue", b, dl, procs=4, prios="0,0,1,1", budget=3, pq=cap, ops=pops,
                        script0="pqput0,pqput1,hold1", script1="pqput-1,pqreprio2,pqput1", script2="pqget,hold1,pqget",
                        script3="pqget,pqget"))
    # priorities over the whole int64 range: differences beyond 2^31, 2^32 apart, the extremes
    wide = ("pqput0,pqput3000000000,pqput4294967296,pqput-3000000000,pqput9223372036854775807,pqput-9223372036854775808,"
            "pqget,pqcancel,pqreprio3000000001,pqreprio-9223372036854775807,hold0,hold1,exit")
    jobs.append(des("priorityqueue-wide-priorities", "queue", b, dl, procs=3, prios="0,0,1", budget=4, pq="max", ops=wide,
                    script0="pqput0,pqput3000000000,pqput4294967296,hold1", script1="pqput-3000000000,pqput9223372036854775807,hold1",
                    script2="hold1,pqget,pqget,pqget"))
    # queues longer than the initial 8 slots: every two-level priority assignment to 12 (13, 14) objects x every object
    # cancelled / moved to the top / moved to the bottom: positions and delivery order against the model
    for n in ((12,) if tier == "quick" else (12, 13, 14)):
        jobs.append(dict(name="pqorder-%d" % n, harness="c10_ramps", opts=dict(mode="pqorder", prop="c12", n=n), bound_min=0,
                         bound_max=0, deadline=1200, crash_is_violation=True, recycle=2000, run_timeout=60))
    # blocked producers / consumers that are told PREEMPTED because they lost a resource they hold
    jobs.append(des("objectqueue-with-resource", "queue", b, dl, procs=3, prios="0,1,2", budget=4, oq="1", res=1,
                    ops="oqput0,oqput0n,oqget,racq0,rpre0,rrel0,hold0,hold1,int0,exit",
                    script0="racq0,oqput0,oqput0n,hold1", script1="hold2,oqget,hold1", script2="hold1,rpre0,hold2"))
    jobs.append(des("priorityqueue-with-resource", "queue", b, dl, procs=3, prios="0,1,2", budget=4, pq="1", res=1,
                    ops="pqput0,pqput1,pqget,pqcancel,racq0,rpre0,rrel0,hold0,hold1,int0,exit",
                    script0="racq0,pqput0,pqput1,hold1", script1="hold2,pqget,hold1", script2="hold1,rpre0,hold2"))
    # a waiting getter / putter that is woken twice and finds the queue emptied / refilled each time
    tops = "oqput0,oqput0n,oqget,hold0,hold1,int0,int1,exit"
    jobs.append(des("objectqueue-thief-get", "queue", b, dl, procs=2, prios="0,0", budget=7, oq="1", ops=tops,
                    script0="hold1,oqput0,oqget,hold1,oqput0,oqget,hold1", script1="oqget,hold1"))
    jobs.append(des("objectqueue-thief-put", "queue", b, dl, procs=2, prios="0,0", budget=8, oq="1", ops=tops,
                    script0="oqput0,hold1,oqget,oqput0,hold1,oqget,oqput0,hold1", script1="oqput0n,hold1"))
    tops = "pqput0,pqput1,pqget,hold0,hold1,int0,int1,exit"
    jobs.append(des("priorityqueue-thief-get", "queue", b, dl, procs=2, prios="0,0", budget=7, pq="1", ops=tops,
                    script0="hold1,pqput0,pqget,hold1,pqput1,pqget,hold1", script1="pqget,hold1"))
    jobs.append(des("priorityqueue-thief-put", "queue", b, dl, procs=2, prios="0,0", budget=8, pq="1", ops=tops,
                    script0="pqput0,hold1,pqget,pqput1,hold1,pqget,pqput0,hold1", script1="pqput1,hold1"))
    return jobs


spec("C12", jobs=c12_jobs,
     technique="explicit-state search over process programs through the real dispatcher against a reference list model (FIFO / priority+put order), compared at every return and observation",
     level_text="Two producers and two consumers on object queues and priority queues of capacity 1, 2 and unlimited, objects including "
                "NULL and a duplicate, priorities {-1,0,1}, reprioritise/cancel by handle, blocking on both ends, timeouts, interrupts "
                "and stops of blocked parties. Reference model = a list; every successful get must deliver the model's head, a failed "
                "get must deliver nothing, length/space/position queries must agree with the model after every call and event.",
     level_note=DES_NOTE, budget=dict(quick=1500, thorough=7200),
     rule="executions = distinct choice sequences within the deviation bound, per queue type and capacity; distinct_nontrivial = distinct outcome signatures",
     assumptions=DES_ASSUME)


# ----------------------------------------------------------------------------- C13
def c13_jobs(tier):
    b = 3 if tier == "quick" else 4
    dl = 300 if tier == "quick" else 1500
    ops = ("cwait0,cwait1,cwait2,cwait3,csig,setx0,setx1,setx2,ccancel1,ccancel2,cremove1,cremove2,racq0,rrel0,"
           "hold0,hold1,tadd1,int1,int2,stop2,exit")
    jobs = [
        des("explicit", "condition", b, dl, procs=4, prios="0,1,2,1", budget=4, cond=1, res=1, ops=ops,
            script0="hold1,setx1,csig,setx2", script1="cwait0,hold1", script2="cwait1,hold1", script3="cwait2,hold1"),
        des("forwarded-register", "condition", b, dl, procs=4, prios="0,1,2,1", budget=4, cond=1, res=1, ops=ops,
            subscribe="res", script0="racq0,hold1,rrel0", script1="cwait3,hold1", script2="cwait3,hold1", script3="cwait0,hold1"),
        # forwarded signals through a relay of conditions and from a buffer's two guards
        des("relay-of-conditions", "progress,condition", b, dl, procs=3, prios="0,1,2", budget=4, res=1, cond=1, subscribe="csub,chain",
            ops="racq0,rrel0,cwait3,cwaitb3,hold0,hold1,exit,stop0,int1", script0="racq0,hold1,rrel0",
            script1="cwaitb3,hold1", script2="hold2,cwait3,hold1"),
        des("condition-on-buffer", "progress,condition", b, dl, procs=3, prios="0,1,2", budget=4, buf=3, cond=1, subscribe="buf",
            ops="bput1,bput2,bget1,bget2,cwait5,cwait6,hold0,hold1,exit,int1", script0="bput3,hold1,bget2,hold1",
            script1="cwait5,hold1", script2="hold2,cwait6,hold1"),
        # cancel / remove addressed to the wrong condition (one at which the process does not wait) change nothing
        des("wrong-condition", "condition,notif", b, dl, procs=3, prios="0,1,2", budget=4, cond=1, res=1,
            ops="cwait0,cwait1,csig,setx1,setx2,cremoveb1,ccancelb1,cremove1,ccancel1,stop1,start1,hold0,hold1,exit",
            script0="hold1,cremoveb1,setx1,csig", script1="cwait0,hold1", script2="hold1,ccancelb1,stop1,hold1"),
        des("explicit-colliding-keys", "condition", b, dl, procs=4, prios="0,1,2,1", budget=4, cond=1, res=1, ops=ops, collide=1,
            script0="hold1,setx1,csig,setx2", script1="cwait0,hold1", script2="cwait1,hold1", script3="cwait2,hold1"),
        des("forwarded-subscribe", "condition", b, dl, procs=3, prios="0,1,2", budget=4, cond=1, res=1, ops=ops,
            subscribe="csub", script0="racq0,hold1,rrel0", script1="cwait3,hold1", script2="cwait3,hold1"),
        # waiters whose timers (standard and application-defined signals) expire in the instant of the signal
        des("timer-race", "condition", b, dl, procs=3, prios="1,0,0", budget=3, cond=1,
            ops="cwait0,cwait1,csig,setx0,setx1,setx2,hold0,hold1,tadd1,tadd1u,int1,exit",
            script0="hold1,setx1,csig", script1="tadd1u,cwait0,hold1", script2="tadd1,cwait0,hold1"),
        # subscriptions made and withdrawn while the simulation runs
        des("subscribe-dynamic", "condition", b, dl, procs=3, prios="0,1,2", budget=5, cond=1, res=1,
            ops="csub,cunsub,cwait3,cwait0,csig,setx1,racq0,rrel0,hold0,hold1,tadd1,int1,exit",
            script0="racq0,csub,hold1,rrel0,cunsub", script1="cwait3,hold1", script2="hold1,cwait3,hold1"),
        # two conditions observing the same guard, subscribed and unsubscribed in every order
        des("two-observers", "condition", b, dl, procs=3, prios="0,1,2", budget=6, cond=1, res=1,
            ops="csub,cunsub,csubb,cunsubb,cwait3,racq0,rrel0,hold0,hold1,exit",
            script0="racq0,csubb,csub,cunsubb,hold1,rrel0", script1="hold0,cwait3,hold1", script2="hold1,cwait3,hold1"),
        des("forwarded-pool", "condition", b, dl, procs=3, prios="0,1,2", budget=4, cond=1, pool=2,
            ops="cwait4,cwait0,csig,setx1,pacq1,pacq2,prel1,prel2,hold1,tadd1,int1,exit", subscribe="pool",
            script0="pacq2,hold1,prel2", script1="cwait4,hold1", script2="cwait4,hold1"),
    ]
    return jobs


spec("C13", jobs=c13_jobs,
     technique="explicit-state search over process programs through the real dispatcher; at every signal point the monitor evaluates every waiter's predicate itself and compares with who was woken",
     level_text="One condition with 2-3 waiters whose predicates are drawn from {X>=1, X>=2, X==0, 'resource free', 'pool has >=2'}, "
                "state changes, explicit signals, signals forwarded from an observed resource / pool guard (both registration "
                "routes, also subscribed and unsubscribed while the simulation runs), cancel and remove by name, timeouts/interrupts/stops of waiters. At each explicit or forwarded signal the "
                "monitor evaluates every waiter's predicate: satisfied waiters must be taken off the queue and return SUCCESS within the "
                "instant, unsatisfied ones must stay; every SUCCESS/CANCELLED return must be justified; cancel/remove must take out "
                "exactly the named process.",
     level_note=DES_NOTE, budget=dict(quick=1500, thorough=7200),
     rule="executions = distinct choice sequences within the deviation bound; distinct_nontrivial = distinct outcome signatures",
     assumptions=DES_ASSUME)


# ----------------------------------------------------------------------------- C14
def c14_jobs(tier):
    b = 3 if tier == "quick" else 4
    dl = 300 if tier == "quick" else 1500
    return [
        des("resource", "history", b, dl, procs=3, prios="0,1,2", budget=4, res=1,
            ops="recon,recoff,racq0,rrel0,rpre0,hold0,hold1,tadd1,int0,int1,stop0,exit",
            script0="recon,racq0,hold1,rrel0", script1="hold1,racq0,hold1,recoff", script2="hold2,rpre0,hold1"),
        des("pool", "history", b, dl, procs=3, prios="0,1,2", budget=4, pool=3,
            ops="recon,recoff,pacq1,pacq2,ppre2,prel1,prel2,hold0,hold1,tadd1,int0,int1,stop0,exit",
            script0="recon,pacq2,hold1,prel2", script1="hold1,pacq2,hold1,recoff", script2="hold2,ppre2,hold1"),
        des("buffer", "history", b, dl, procs=3, prios="0,1,1", budget=4, buf=3,
            ops="recon,recoff,bput1,bput2,bput5,bget1,bget2,bget5,hold0,hold1,tadd1,int0,int1,stop0,exit",
            script0="recon,bput2,hold1,bput5", script1="bget1,hold1,bget5,recoff", script2="hold1,bget2"),
        des("objectqueue", "history", b, dl, procs=3, prios="0,1,1", budget=4, oq=2,
            ops="recon,recoff,oqput0,oqget,hold0,hold1,tadd1,int0,int1,stop0,exit",
            script0="recon,oqput0,oqput0,oqput0", script1="hold1,oqget,hold1,recoff", script2="hold1,oqget"),
        des("priorityqueue", "history", b, dl, procs=3, prios="0,1,1", budget=4, pq=2,
            ops="recon,recoff,pqput0,pqput1,pqget,pqcancel,hold0,hold1,tadd1,int0,int1,stop0,exit",
            script0="recon,pqput0,pqput1,pqcancel", script1="hold1,pqget,hold1,recoff", script2="hold1,pqget"),
        # recording stopped a second time, later, by somebody who does not know it is off already (state changes in between)
        des("buffer-stopped-twice", "history", b, dl, procs=3, prios="0,1,1", budget=4, buf=3,
            ops="recon,recoff,restop,bput1,bput2,bget1,bget2,hold0,hold1,int0,exit",
            script0="recon,bput2,recoff,hold2", script1="hold1,bget2,hold1,restop", script2="hold1,bget1"),
        des("all-stopped-twice", "history", 2, dl, procs=3, prios="0,1,1", budget=4, res=1, pool=3, oq=2, pq=2,
            ops="recon,recoff,restop,racq0,rrel0,pacq2,prel2,oqput0,oqget,pqput1,pqget,hold0,hold1,exit",
            script0="recon,racq0,pacq2,oqput0,pqput1,recoff,hold2", script1="hold1,oqget,pqget,restop", script2="hold2,restop"),
        # recording switched off and, after the state has changed unrecorded, on again: a second window in the same history
        des("resource-two-windows", "history", b, dl, procs=3, prios="0,1,2", budget=5, res=1,
            ops="recon,recoff,rerec,restop,racq0,rrel0,rpre0,hold0,hold1,exit",
            script0="recon,racq0,hold1,recoff,rrel0", script1="hold2,rerec,racq0,hold1,recoff", script2="hold3,rpre0,hold1"),
        des("all-two-windows", "history", 2, dl, procs=3, prios="0,1,1", budget=5, res=1, pool=3, buf=3, oq=2, pq=2,
            ops="recon,recoff,rerec,racq0,rrel0,pacq2,prel2,bput2,bget1,oqput0,oqget,pqput1,pqget,hold0,hold1,exit",
            script0="recon,racq0,pacq2,bput2,recoff", script1="hold1,oqput0,pqput1,rerec,hold1", script2="hold2,bget1,oqget,recoff"),
        # time stamps and durations that are not exact in binary, recording switched on before and after zero
        des("pool-fractional-clock", "history", b, dl, procs=3, prios="0,1,2", budget=4, pool=3, tscale="0.1", t0="-0.15",
            ops="recon,recoff,pacq1,pacq2,ppre2,prel1,prel2,hold0,hold1,hold2,int0,exit",
            script0="recon,pacq2,hold1,prel2", script1="hold1,pacq2,hold1,recoff", script2="hold2,ppre2,hold1"),
        des("buffer-fractional-clock", "history", b, dl, procs=3, prios="0,1,1", budget=4, buf=3, tscale="0.1", t0="-0.15",
            ops="recon,recoff,bput1,bput2,bget1,bget2,hold0,hold1,hold2,int0,exit",
            script0="recon,bput2,hold1,bput2", script1="bget1,hold1,bget2,recoff", script2="hold1,bget2"),
        # a cancel from a full priority queue wakes a blocked putter, which is stopped / interrupted / timed out before it puts
        des("priorityqueue-cancel-wakes-putter", "history", b, dl, procs=3, prios="0,1,1", budget=4, pq=2,
            ops="recon,recoff,pqput0,pqput1,pqget,pqcancel,hold0,hold1,hold2,tadd1,int0,int0h,stop0,exit",
            script0="recon,pqput0,pqput0,hold1", script1="pqput1,hold1,pqcancel,stop0", script2="hold2,recoff"),
        # a very fine clock (time unit 2^-54: every interval far below DBL_EPSILON) and a very coarse one (2^60)
        des("resource-attosecond-clock", "history", 2, dl, procs=3, prios="0,1,2", budget=4, res=1, tscale="5.551115123125783e-17",
            ops="recon,recoff,racq0,rrel0,rpre0,hold0,hold1,hold2,int0,exit",
            script0="recon,racq0,hold1,rrel0", script1="hold1,racq0,hold1,recoff", script2="hold2,rpre0,hold1"),
        des("buffer-aeon-clock", "history", 2, dl, procs=3, prios="0,1,1", budget=4, buf=3, tscale="1152921504606846976",
            ops="recon,recoff,bput1,bput2,bget1,bget2,hold0,hold1,hold2,int0,exit",
            script0="recon,bput2,hold1,bput2", script1="bget1,hold1,bget2,recoff", script2="hold1,bget2"),
        # histories of more than 1024 / 2048 samples (the time series' growth thresholds): scripts repeat, nothing is chosen
        des("resource-long", "history", 0, dl, procs=3, prios="0,0,0", budget="1,2400,2400", res=1, cycle=1, maxevents=40000,
            ops="recon", script0="recon", script1="racq0,hold1,rrel0,hold2", script2="hold1,racq0,hold2,rrel0"),
        # ... every sample with a duration of its own (one process), recording started at three different offsets
        des("resource-long-solo", "history", 0, dl, procs=2, prios="0,0", budget="1,4400", res=1, cycle=1, maxevents=40000,
            ops="recon", script0="recon", script1="racq0,hold1,rrel0,hold2"),
        des("resource-long-solo-late", "history", 0, dl, procs=2, prios="0,0", budget="2,4400", res=1, cycle=1, maxevents=40000,
            ops="recon,hold1", script0="hold1,recon", script1="racq0,hold1,rrel0,hold2"),
        des("pool-long-solo", "history", 0, dl, procs=2, prios="0,0", budget="1,4400", pool=3, cycle=1, maxevents=40000,
            ops="recon", script0="recon", script1="pacq2,hold1,pacq1,hold2,prel3,hold1"),
        des("buffer-long", "history", 0, dl, procs=3, prios="0,0,0", budget="1,2400,2400", buf=3, cycle=1, maxevents=40000,
            ops="recon", script0="recon", script1="bput2,hold1,bput1,hold2", script2="hold1,bget1,hold1,bget2"),
        des("objectqueue-long", "history", 0, dl, procs=3, prios="0,0,0", budget="1,2400,2400", oq=2, cycle=1, maxevents=40000,
            ops="recon", script0="recon", script1="oqput0,hold1,oqput0,hold2", script2="hold1,oqget,hold2,oqget"),
        # the library's own arithmetic on histories under the experiment's floating-point trap mask
        des("resource-fptrap", "history", 2, dl, procs=3, prios="0,1,2", budget=4, res=1, fptrap=1,
            ops="recon,recoff,racq0,rrel0,rpre0,hold0,hold1,int0,stop0,exit",
            script0="recon,racq0,hold1,rrel0", script1="hold1,racq0,hold1,recoff", script2="hold2,rpre0,hold1"),
        des("buffer-fptrap", "history", 2, dl, procs=3, prios="0,1,1", budget=4, buf=3, fptrap=1,
            ops="recon,recoff,bput1,bput2,bget1,bget2,hold0,hold1,int0,stop0,exit",
            script0="recon,bput2,hold1,bput2", script1="bget1,hold1,bget2,recoff", script2="hold1,bget2"),
        des("pool-fptrap", "history", 2, dl, procs=3, prios="0,1,2", budget=4, pool=3, fptrap=1,
            ops="recon,recoff,pacq1,pacq2,ppre2,prel1,prel2,hold0,hold1,int0,stop0,exit",
            script0="recon,pacq2,hold1,prel2", script1="hold1,pacq2,hold1,recoff", script2="hold2,ppre2,hold1"),
        des("objectqueue-fptrap", "history", 2, dl, procs=3, prios="0,1,1", budget=4, oq=2, fptrap=1,
            ops="recon,recoff,oqput0,oqget,hold0,hold1,int0,stop0,exit",
            script0="recon,oqput0,oqput0,oqput0", script1="hold1,oqget,hold1,recoff", script2="hold1,oqget"),
        des("priorityqueue-fptrap", "history", 2, dl, procs=3, prios="0,1,1", budget=4, pq=2, fptrap=1,
            ops="recon,recoff,pqput0,pqput1,pqget,pqcancel,hold0,hold1,int0,stop0,exit",
            script0="recon,pqput0,pqput1,pqcancel", script1="hold1,pqget,hold1,recoff", script2="hold1,pqget"),
    ]


spec("C14", jobs=c14_jobs,
     technique="explicit-state search over process programs through the real dispatcher; the monitor records the true trajectory at every observation point and compares it with the recorded history when recording stops",
     level_text="For each recordable object type, recording is switched on and off at chosen instants while acquire/release/preempt/"
                "put/get/cancel, rollbacks of interrupted acquisitions, drops on stop/exit and several changes per instant happen. "
                "The monitor samples the true value after every call and event; when recording stops (or at the end) the history must "
                "have non-decreasing times inside the interval, only values the object actually went through, the same value as the "
                "truth at the end of every instant, and a time-weighted mean equal to the exact time average (1e-12); the object's "
                "printed report (the user-facing route to the utilisation) must be printable and show that mean to its four digits. "
                "A second set of jobs runs under the floating-point trap mask cimba_run_experiment gives its worker threads.",
     level_note=DES_NOTE + " Latitude: a change undone within the same instant needs no sample of its own; one recording interval per execution.",
     budget=dict(quick=1500, thorough=7200),
     rule="executions = distinct choice sequences within the deviation bound, per object type; distinct_nontrivial = distinct outcome signatures",
     assumptions=DES_ASSUME)


# ----------------------------------------------------------------------------- C20
def c20_jobs(tier):
    def j(name, bmax=0, deadline=300, **o):
        return dict(name=name, harness="c20_mempool", opts=o, bound_min=0, bound_max=bmax, deadline=deadline,
                    crash_is_violation=True, recycle=500)
    D = 11 if tier == "quick" else 14
    jobs = [j("seq-8x512", objsz=8, objnum=512, mode="seq", depth=D),
            j("seq-2048x2", objsz=2048, objnum=2, mode="seq", depth=D),
            j("seq-4096x1", objsz=4096, objnum=1, mode="seq", depth=D),
            j("seq-24", objsz=24, objnum=3, mode="seq", depth=D),
            # chunks of 256 KiB and 1 MiB (4096 objects of 64 bytes, 256 of 4096 bytes): every object of a chunk is used
            j("ramp-64x4096", 0, objsz=64, objnum=4096, mode="ramp", target=9000, nochoice=1),
            j("ramp-4096x256", 0, objsz=4096, objnum=256, mode="ramp", target=600, nochoice=1),
            # a chunk beyond 4 GiB (4100 objects of 1 MiB; only the ends of each object are touched): offsets need 64 bits
            dict(j("ramp-1MiBx4100", 0, objsz=1048576, objnum=4100, mode="ramp", target=4200, nochoice=1, sparse=1),
                 run_timeout=120, workers=1),
            j("seq-4104", objsz=4104, objnum=1, mode="seq", depth=D - 1),
            j("ramp66-4096", 1 if tier == "quick" else 2, objsz=4096, objnum=1, mode="ramp", target=66),
            j("ramp66-2048", 1, objsz=2048, objnum=2, mode="ramp", target=132),
            j("ramp-8x512", 0, objsz=8, objnum=512, mode="ramp", target=33300, nochoice=1),
            j("static-tls", 0, mode="static", target=400),
            # live objects of a static pool on the thread that runs an experiment of 1..8 trials
            j("static-across-experiment", 0, mode="experiment", target=150)]
    if tier != "quick":
        jobs += [j("ramp130-4096", 2, 1500, objsz=4096, objnum=1, mode="ramp", target=130),
                 j("ramp66-4104", 2, 1500, objsz=4104, objnum=1, mode="ramp", target=66),
                 j("static-tls-big", 0, mode="static", target=12000)]
    return jobs


spec("C20", jobs=c20_jobs,
     technique="explicit-state exhaustive enumeration of alloc/free sequences on the real cmi_mempool (small scope) plus deviation-bounded ramps across the 64-chunk growth point, under AddressSanitizer",
     level_text="All alloc/free sequences of length <= D (free oldest / newest / middle) for chunk geometries of 1, 2 and 512 objects per "
                "4 KiB chunk and odd sizes (24, 4104), and ramps that take the pool past 64 and 128 chunks with up to two departures "
                "(a free at any position), plus a statically initialised thread-local pool used and cleaned up on a second thread. "
                "Reference = set of live (address, stamp): alignment, disjointness from every live object, stamp pattern intact over "
                "the whole object at free and at the end; AddressSanitizer turns chunk-list corruption into a reported crash.",
     level_note="Trusted: the live-set model in harness/c20_mempool.c, the explorer, AddressSanitizer. Not covered: more than 130 chunks.",
     budget=dict(quick=900, thorough=5400),
     rule="every alloc/free sequence up to the depth, and every ramp with <= B frees inserted; distinct_nontrivial = distinct outcome "
          "signatures (live count x chunk count trace); states = distinct (live, chunks, allocations) triples",
     assumptions=["object sizes are multiples of 8 (documented precondition)"])


# ----------------------------------------------------------------------------- C10
UNION_OPS = ("hold0,hold1,tadd1,tset1,tcancel0,tclear,yield,resume0,resume1,waitp0,waitp1,waitp2,evsched1,waite0,evcancel0,"
             "int0,int1,int2,stop0,stop1,stopself,exit,prio0.2,prio1.0,start1,"
             "racq0,rpre0,rrel0,pacq1,pacq2,ppre2,prel1,bput2,bget2,oqput0,oqget,pqput1,pqget,pqcancel,pqreprio2,"
             "cwait0,cwait3,csig,setx1,ccancel1,cremove1,csub,cunsub,csubb,cunsubb,recon,recoff")


def c10_jobs(tier):
    def ramp(mode, deadline=300):
        return dict(name="ramp-" + mode, harness="c10_ramps", opts=dict(mode=mode), bound_min=0, bound_max=0,
                    deadline=deadline, crash_is_violation=True, recycle=200, run_timeout=60)
    b = 2 if tier == "quick" else 3
    dl = 400 if tier == "quick" else 2400
    jobs = [
        dict(des("union-p3", "none", b, dl, procs=3, prios="0,1,2", budget=3, res=1, pool=2, buf=2, oq=1, pq=1, cond=1,
                 subscribe="res", ops=UNION_OPS, script0="racq0,hold1,rrel0", script1="pacq2,hold1,prel1",
                 script2="tadd1,bget2,hold1"), crash_is_violation=True),
        dict(des("union-p3-eqprio", "none", b, dl, procs=3, prios="0,0,0", budget=3, res=1, pool=2, buf=2, oq=1, pq=1,
                 cond=1, subscribe="csub", ops=UNION_OPS, script0="hold1,int1,hold1", script1="hold1,hold1",
                 script2="waitp1,tadd1,racq0"), crash_is_violation=True),
        dict(des("union-p2-deep", "none", b + 1, dl, procs=2, prios="0,0", budget=4, res=1, pool=2, buf=2, oq=1, pq=1,
                 cond=1, ops=UNION_OPS, script0="hold1,hold1", script1="hold1,int0"), crash_is_violation=True),
        dict(des("union-p3-fptrap", "none", 2, dl, procs=3, prios="0,1,2", budget=3, res=1, pool=2, buf=2, oq=1, pq=1, cond=1,
                 subscribe="res", ops=UNION_OPS, script0="racq0,hold1,rrel0", script1="pacq2,hold1,prel1",
                 script2="tadd1,bget2,hold1", fptrap=1), crash_is_violation=True),
        # priorities changed of processes that have just been granted something (taken off the waiting list, wake-up pending)
        # while others still wait there, and of waiters at every kind of guard
        dict(des("reprioritise-granted-waiter-p3", "none", b + 1, dl, procs=3, prios="0,0,0", budget=4, res=1, pool=2, buf=2,
                 ops="racq0,rrel0,pacq2,prel2,bget1,bput1,prio0.1,prio1.1,prio1.-1,prio2.1,hold0,hold1,int1,exit",
                 script0="racq0,hold1,rrel0,prio1.1", script1="racq0,hold1,rrel0", script2="racq0,hold1,rrel0"),
             crash_is_violation=True),
        ramp("evwait"), ramp("procwait"), ramp("guardq"), ramp("holders"), ramp("timers", 600), ramp("oqueue", 600),
        ramp("observers", 600), ramp("closing"), ramp("restart"), ramp("manywaiters", 900),
        # a steady population of 2-12 pending events over 3000 executions, every pending handle queried and touched each time
        ramp("evchurn"),
        dict(ramp("closing"), name="ramp-closing-fptrap", opts=dict(mode="closing", fptrap=1)),
        # data arrays on both sides of their growth point (1023-2049 samples), copied onto targets with an earlier life
        dict(name="data-arrays", harness="c18_data", opts=dict(mode="big"), bound_min=0, bound_max=0, deadline=600,
             crash_is_violation=True),
        # the statistics of short series with every pattern of durations (also none at all: total weight zero) where they
        # are computed in practice, under the floating-point trap mask of an experiment
        dict(name="data-series-fptrap", harness="c18_data", cfg="rel", opts=dict(mode="ts", maxlen=4, fptrap=1), bound_min=0,
             bound_max=0, deadline=600, crash_is_violation=True),
        dict(name="data-small-fptrap", harness="c18_data", cfg="rel", opts=dict(mode="small", maxlen=4, fptrap=1), bound_min=0,
             bound_max=0, deadline=600, crash_is_violation=True),
    ]
    return jobs


spec("C10", jobs=c10_jobs, crash_is_violation=True,
     technique="explicit-state search over valid process programs with the union alphabet of all simulation-engine operations, plus exhaustive parametric threshold ramps, on an AddressSanitizer+UBSan build; oracle = no sanitizer report, no library abort",
     level_text="(1) The DES driver with every operation of the engine enabled (processes, timers, waits, interrupts, stops, restarts, "
                "resource, pool, buffer, both queues, condition with observers, recording) generates only programs that respect the "
                "documented preconditions; every choice sequence within the deviation bound runs on a build with AddressSanitizer "
                "(fiber-annotated via hook H1) and a UBSan subset; any sanitizer report, signal or library assert is a violation. "
                "(2) Threshold ramps enumerate container populations on both sides of every growth point crossed with the operation "
                "that triggers growth while the library holds a pointer into the container: waiters on an event / a process x event "
                "queue population (8/16/32), waiting lists and holder lists at 7-9 and 15-17 entries x interrupt/stop/priority change/"
                "timeout/cancel, 8189-8196 armed timers of one process (64 tag chunks), 16381-16387 queued objects and observers. "
                "(3) 'Closing': every object type, heap-allocated (create/destroy), x {never recorded, recorded nothing, one change, "
                "two changes} x finalize x printed report, and the event queue printed with 0/1/9 events, also under the "
                "floating-point trap mask of cimba_run_experiment.",
     level_note="Trusted: the driver's validity predicate (a crash on a program it generated is triaged by replay), AddressSanitizer, "
                "UBSan (alignment and null checks off: the tree uses offsetof-by-null-pointer and one deliberate unaligned store), "
                "the explorer's crash classification. The shipped -O3/LTO build is not the one explored.",
     budget=dict(quick=1800, thorough=7200),
     rule="union jobs: distinct choice sequences within the deviation bound; ramps: every (population, operation, position) tuple; "
          "distinct_nontrivial = distinct outcome signatures",
     assumptions=DES_ASSUME + ["data-array thresholds (dataset/timeseries at 1023-2049 samples, sort/copy onto empty, smaller and larger targets/histogram/correlogram) are the C18 harness's 'big' mode, run here as job data-arrays under the same sanitizer build"])


# ----------------------------------------------------------------------------- C17
def c17_jobs(tier):
    def j(name, **o):
        return dict(name=name, harness="c17_summary", opts=o, bound_min=0, bound_max=0, deadline=900,
                    crash_is_violation=True)
    if tier == "quick":
        return [j("plain-len5", mode="plain", maxlen=5), j("offset-len5", mode="offset", maxlen=5),
                j("offset12-len5", mode="offset12", maxlen=5),
                j("weighted-len3", mode="weighted", maxlen=3),
                # weight ratios beyond 2^53: count, extremes and mean only
                j("weighted-tiny-weights-len3", mode="weighted", maxlen=3, wset="tiny"),
                dict(j("plain-len4-fptrap", mode="plain", maxlen=4, fptrap=1), cfg="rel"),
                dict(j("weighted-len3-fptrap", mode="weighted", maxlen=3, fptrap=1), cfg="rel")]
    return [j("plain-len7", mode="plain", maxlen=7), j("offset-len7", mode="offset", maxlen=7),
            j("offset12-len6", mode="offset12", maxlen=6),
            j("weighted-len4", mode="weighted", maxlen=4),
            j("weighted-tiny-weights-len4", mode="weighted", maxlen=4, wset="tiny"),
            dict(j("plain-len6-fptrap", mode="plain", maxlen=6, fptrap=1), cfg="rel"),
            dict(j("offset-len5-fptrap", mode="offset", maxlen=5, fptrap=1), cfg="rel"),
            dict(j("weighted-len4-fptrap", mode="weighted", maxlen=4, fptrap=1), cfg="rel")]


spec("C17", jobs=c17_jobs,
     technique="exhaustive enumeration of all short sample sequences over a value/weight alphabet, every split and merge aliasing, against a quad-precision two-pass reference",
     level_text="All sequences of length 0..L over {0, 1, -1, 2, 1e9+1, 1e-3, 1e60} and over a large-common-offset alphabet "
                "(1e9-5 .. 1e9+3), and all weighted sequences over values x weights {1, 0, 2, 1/2}: for each, count/min/max exactly and "
                "mean/variance/stddev/skewness/kurtosis against __float128 two-pass statistics; every split point, both merge "
                "orders and all three target aliasings (including empty operands) must give the summary of the concatenation; "
                "weighted: exact weighted mean, zero weights ignored, unit weights = unweighted, every statistic unchanged when all "
                "weights are multiplied by 3, 1/4, 1e6. Every statistic and the printed summary line are evaluated for every input "
                "(also constant data), and a second set of jobs repeats the enumeration under the floating-point trap mask that "
                "cimba_run_experiment gives its worker threads: a 0/0 inside the library ends the execution with SIGFPE there.",
     level_note="Trusted: the quad-precision reference and tolerances in harness/c17_summary.c (1e-6 of a magnitude scale for moments: "
                "rounding is 1e-13, a wrong coefficient is O(1)). Skewness/kurtosis are compared only for well-conditioned data "
                "(spread > 1e-7 of the magnitude) and not for constant data, where they are undefined.",
     budget=dict(quick=900, thorough=5400),
     rule="every sequence up to the length bound; distinct_nontrivial = distinct (mean, m2) bit patterns observed; states = distinct input sequences",
     assumptions=["finite samples, non-negative weights (documented preconditions)"])


# ----------------------------------------------------------------------------- C18
def c18_jobs(tier):
    def j(name, **o):
        return dict(name=name, harness="c18_data", opts=o, bound_min=0, bound_max=0, deadline=1200,
                    crash_is_violation=True, recycle=300)
    if tier == "quick":
        return [j("small-len6", mode="small", maxlen=6), j("perm6", mode="perm", maxlen=6), j("big", mode="big"),
                j("ts-len4", mode="ts", maxlen=4),
                j("small-len6-huge", mode="small", maxlen=6, huge=1), j("small-len6-huge-signed", mode="small", maxlen=6, huge=2),
                # statistics are computed inside trials, i.e. on concurrent worker threads, each on its own objects
                dict(j("threads-free-running", mode="free"), workers=1),
                dict(j("tsan-free-running", mode="free"), cfg="tsan", workers=1),
                dict(j("small-len5-fptrap", mode="small", maxlen=5, fptrap=1), cfg="rel"),
                dict(j("ts-len4-fptrap", mode="ts", maxlen=4, fptrap=1), cfg="rel")]
    return [j("small-len8", mode="small", maxlen=8), j("perm8", mode="perm", maxlen=8), j("big", mode="big"),
            j("ts-len6", mode="ts", maxlen=6),
            j("small-len8-huge", mode="small", maxlen=8, huge=1), j("small-len8-huge-signed", mode="small", maxlen=8, huge=2),
            dict(j("threads-free-running", mode="free"), workers=1),
            dict(j("tsan-free-running", mode="free"), cfg="tsan", workers=1),
            dict(j("small-len7-fptrap", mode="small", maxlen=7, fptrap=1), cfg="rel"),
            dict(j("big-fptrap", mode="big", fptrap=1), cfg="rel"),
            dict(j("ts-len5-fptrap", mode="ts", maxlen=5, fptrap=1), cfg="rel")]


spec("C18", jobs=c18_jobs,
     technique="exhaustive enumeration of all short sample arrays (values x duration patterns), all permutations, and threshold-size arrays, each checked against the definitions (multiset, order statistics, bin totals, invariances)",
     level_text="All arrays of length 1..L over {0,1,2,3}, all permutations of 1..K, arrays of 1023/1024/1025/2048/2049 samples "
                "(sorted, reverse, constant, saw-tooth), and for time series every duration pattern over {1,0,5}: sort (same multiset, "
                "ascending, (value,time,weight) triples intact, sort-by-time restores order), copies exact and extendable (under "
                "ASan), median a true (weighted) median inside the data range, five-number output parsed from the printed report "
                "monotone, inside the range and with a median that is a true (weighted) median, min/max, finalize (last sample gets "
                "its duration; empty series), histogram bins (dataset and time-weighted fill) adding up to the sample count / total "
                "weight for bin counts {1,2,5} and four ranges incl. autoscale, ACF/PACF one at lag 0 and invariant under shifts "
                "+1000/-7 and scalings 2, 1/2, 2^-20.",
     level_note="Trusted: the definitions coded in harness/c18_data.c; the time-weighted histogram fill is reached by compiling "
                "/repo/src/cmb_timeseries.c into the harness translation unit. The five-number report is printed with 4 significant "
                "digits, so its comparison has 1e-3 relative slack.",
     budget=dict(quick=900, thorough=5400),
     rule="every array up to the length bound / every permutation / every (size, pattern) pair; distinct_nontrivial = distinct "
          "medians observed; states = distinct inputs",
     assumptions=["finite samples; non-decreasing time stamps (documented precondition)"])


# ----------------------------------------------------------------------------- C03
def c03_jobs(tier):
    def j(name, cfg, **o):
        return dict(name=name, harness="c03_coroutine", cfg=cfg, opts=o, bound_min=0, bound_max=0, deadline=1500,
                    crash_is_violation=True, recycle=5000)
    # the same clause one layer up: what a timer, an interrupt or a resume hands to a suspended *process* is what its
    # blocking call returns, all 64 bits of it (signals with zero low halves, beyond 2^40, next to the ends of the type)
    msg = des("process-messages-p2", "notif", 3 if tier == "quick" else 4, 600, procs=2, prios="0,0", budget=3,
              ops="hold0,hold1,hold2,tadd1u,tadd2u,tset1u,tset2u,tcancel0,yield,resume0,resume1s,int0,int1,int1h,int2,waitp1,exit",
              script0="tadd1u,hold2,hold1", script1="tadd2u,yield,hold1")
    if tier == "quick":
        return [msg, j("api-n2-d6-asan", "asan", mode="api", ncor=2, depth=6),
                j("api-n2-d7-O2", "rel", mode="api", ncor=2, depth=7),
                j("api-n3-d5-O3", "rel3", mode="api", ncor=3, depth=5),
                j("seam-k2-d12-O2", "rel", mode="seam", ncor=2, depth=12),
                j("seam-k3-d9-O3", "rel3", mode="seam", ncor=3, depth=9)]
    return [msg, j("api-n2-d8-asan", "asan", mode="api", ncor=2, depth=8),
            j("api-n3-d7-O2", "rel", mode="api", ncor=3, depth=7),
            j("api-n3-d7-O3", "rel3", mode="api", ncor=3, depth=7),
            j("seam-k3-d11-O2", "rel", mode="seam", ncor=3, depth=11),
            j("seam-k3-d11-O3", "rel3", mode="seam", ncor=3, depth=11)]


spec("C03", jobs=c03_jobs,
     technique="explicit-state exhaustive enumeration of start/yield/resume/transfer/stop/exit/return/restart interleavings on the real coroutines against a reference model, with an assembly probe that loads and re-reads all callee-saved registers, MXCSR and a stack canary around every switch",
     level_text="Main plus two or three coroutines; the running coroutine chooses among all operations its state allows (yield / "
                "transfer also 3 and 17 frames deep), every sequence up to the depth bound is executed on the real "
                "cmi_coroutine_* functions in -O2, -O3 and ASan builds, and - seam level - on raw contexts switched by calling "
                "cmi_coroutine_context_switch directly. An assembly probe loads rbx, rbp, r12-r15, MXCSR (all 1024 control words "
                "in rotation) and a 256-byte stack canary immediately before the call and reads them back immediately after; a "
                "40-line model predicts which coroutine gets control and which message it must see; entry arguments, entry stack "
                "alignment (rsp mod 16 = 8, read in the first instruction), exit values and statuses are compared.",
     level_note="Trusted: the probe (harness/c03_coroutine.S), the reference model, the explorer. Register VALUES are covered as "
                "patterns (all-ones, zero, walking one/zero over all 64 positions, tags), not 2^64 values; arithmetic flags and the "
                "x87 control word are outside the statement.",
     budget=dict(quick=900, thorough=5400),
     rule="every operation sequence up to the depth bound; distinct_nontrivial = distinct outcome signatures (who ran which operation "
          "and what it received); states = distinct model states (current, statuses, callers, parents, remaining budget)",
     assumptions=["operations are issued only when their documented preconditions hold (target running and suspended, parent alive for exit/return)"])


# ----------------------------------------------------------------------------- C15
def c15_jobs(tier):
    def j(name, cfg="asan", bmax=0, workers=None, **o):
        d = dict(name=name, harness="c15_random", cfg=cfg, opts=o, bound_min=0, bound_max=bmax, deadline=1500,
                 crash_is_violation=True, recycle=1000)
        if workers:
            d["workers"] = workers
        return d
    jobs = [j("identity", mode="identity"), j("identity-O2", "rel", mode="identity"),
            # very long runs: 2^32 + 4096 consecutive raw draws after one seeding (two seeds), each compared with the reference
            dict(j("long-run-2^32", "rel", mode="longrun"), run_timeout=300, workers=2),
            # nothing but the seed: not what lies in memory next to an argument either (probability vectors handed over as
            # blocks of exactly n numbers, sums on both sides of one, every lattice draw; AddressSanitizer build)
            dict(name="argument-blocks", harness="c16_dist", cfg="asan", opts=dict(mode="aliasvec", maxn=4), bound_min=0,
                 bound_max=0, deadline=600, crash_is_violation=True, recycle=1000),
            j("history", mode="history", hist=2 if tier == "quick" else 3),
            j("history-O2", "rel", mode="history", hist=2 if tier == "quick" else 3),
            j("experiment-workers", mode="experiment"), j("experiment-workers-O2", "rel", mode="experiment"),
            j("threads-2", bmax=2, mode="threads", nthreads=2),
            j("threads-3", bmax=1 if tier == "quick" else 2, mode="threads", nthreads=3),
            j("tsan-free-running", "tsan", workers=1, mode="free")]
    return jobs


spec("C15", jobs=c15_jobs,
     technique="exhaustive comparison with an independent reference generator over a seed set; exhaustive enumeration of prior call histories; preemption-bounded exhaustive schedule search of concurrent samplers under a serialising scheduler, plus a free-running ThreadSanitizer pass",
     level_text="(a) For all seeds in [0, 2^16), all 64 single-bit seeds and boundary seeds the first 64 raw outputs are compared bit for "
                "bit with an independent sfc64 + splitmix64 implementation (20 discarded outputs). (b) Every prior history of up to 2-3 "
                "calls over 19 operations {flip x1/x7/x64, gamma(0.5/1/2.5), std_gamma, geometric(0.3/0.7/1), negative binomial(p=1), "
                "chi-squared, beta, normal, exponential, alias, loaded dice, terminate, initialize(other)} is followed by "
                "initialize(seed), then every ordered pair of those samplers as the first two calls after the seed (so that every "
                "sampler with cached parameters is met first with the same and with a different parameter than before the seed), "
                "the next raw word, and a probe that calls every sampling function; all bit patterns must equal those on a thread "
                "that never used the generator. (c) Two and three threads with different seeds "
                "run the probe under a serialising scheduler with a scheduling point before every raw draw (hook H2); all interleavings "
                "up to 2 preemptions; each thread's values must equal its solo values. (d) The same bodies run free under ThreadSanitizer.",
     level_note="Trusted: the reference generator in harness/c15_random.c, the scheduler (engine/vx_sched.c), ThreadSanitizer. "
                "'Every seed' is covered on 65 k + boundary seeds: the generator is branch-free integer arithmetic. The serialising "
                "scheduler cannot see atomicity inside one statement; the TSan pass covers data races, its silence is not counted as exploration.",
     budget=dict(quick=900, thorough=5400),
     rule="identity: 66 blocks covering 65 607 seeds x 64 outputs; history: every sequence of prior calls up to the bound x 2 seeds; "
          "threads: every schedule within the preemption bound; distinct_nontrivial = distinct outcome signatures",
     assumptions=["hook H2's pre-draw callback is the only scheduling point inside a sampler"])


# ----------------------------------------------------------------------------- C19
def c19_jobs(tier):
    def j(name, cfg="asan", bmax=2, workers=None, **o):
        d = dict(name=name, harness="c19_experiment", cfg=cfg, opts=o, bound_min=0, bound_max=bmax, deadline=1500,
                 crash_is_violation=True, recycle=500)
        if workers:
            d["workers"] = workers
        return d
    b = 3 if tier == "quick" else 4
    jobs = [
        dict(j("w1-size24", bmax=0, size=24, mode="sched"), opts=dict(workers=1, size=24, mode="sched")),
        dict(j("w2-size8", bmax=b, size=8), opts=dict(workers=2, size=8, mode="sched")),
        dict(j("w2-size24", bmax=b), opts=dict(workers=2, size=24, mode="sched")),
        dict(j("w2-size4096", bmax=b), opts=dict(workers=2, size=4096, mode="sched")),
        dict(j("w3-size4096", bmax=b - 1), opts=dict(workers=3, size=4096, mode="sched")),
        dict(j("w3-size24-O2", "rel", bmax=b - 1), opts=dict(workers=3, size=24, mode="sched")),
        dict(j("w2-malloc", bmax=b), opts=dict(workers=2, size=24, mode="sched", alloc="malloc")),
        dict(j("tsan-free-running", "tsan", bmax=0, workers=1), opts=dict(workers=3, size=4096, mode="free")),
        # every trial writes to the log when it is through; the last element's trial gives up with cmb_logger_error, which
        # ends its worker thread only: everybody else finishes and the experiment returns (free-running, real threads)
        dict(j("free-running-error-trial", bmax=0, workers=1), opts=dict(workers=3, size=4096, mode="free", errtrial=1),
             run_timeout=60),
    ]
    return jobs


spec("C19", jobs=c19_jobs,
     technique="preemption-bounded exhaustive schedule search of the real cimba_run_experiment worker threads under a serialising scheduler (every assignment of trials to workers and every completion order within the bound), plus a free-running ThreadSanitizer pass",
     level_text="cimba_run_experiment is called for real with 1-3 worker threads (cmi_cpu_cores replaced at link time, pthread_create/"
                "join wrapped so that the workers run under the scheduler), trial counts {1, W-1, W, W+2, 6} and element sizes "
                "{8, 24, 4096}; the trial function counts executions per element, checks it was handed its own element, and runs "
                "content selected by the element: a random-number probe (flip/gamma/geometric caches), a process/resource model with "
                "same-instant ties, a trial that changes logger flags, a trial that leaves blocked processes and populated tag pools. "
                "Every entry to and return from the trial function is a scheduling point: all assignments and completion orders up "
                "to 2-3 preemptions are enumerated; every counter must be 1 and every result equal to a sequential reference run. "
                "Each result also contains what the trial sees of thread-local state on entry: the simulation clock, the current "
                "process, the rounding mode, flush-to-zero / denormals-are-zero and a computation through the subnormal range.",
     level_note="Trusted: the scheduler (engine/vx_sched.c), the link-time wrapping, ThreadSanitizer for the free-running pass. "
                "Atomicity inside the dispenser statement is visible only to the TSan pass (a race), not to the serialising scheduler.",
     budget=dict(quick=900, thorough=5400),
     rule="every schedule of the worker threads within the preemption bound, per (workers, trial count, element size); "
          "distinct_nontrivial = distinct (trial count, preemptions) outcome classes",
     assumptions=["scheduling points at trial entry/return only: the dispenser's fetch-and-add executes atomically between them"])


# ----------------------------------------------------------------------------- C16
def c16_jobs(tier):
    def j(name, cfg="asan", **o):
        return dict(name=name, harness="c16_dist", cfg=cfg, opts=o, bound_min=0, bound_max=0, deadline=2400,
                    crash_is_violation=True, recycle=20000)
    if tier == "quick":
        return [j("tables", mode="tables"), j("lattice-16", "rel", mode="lattice", lbits=16), j("seq-K2", mode="seq", K=2),
                j("seq-K2-O2", "rel", mode="seq", K=2), j("aliasvec-5", mode="aliasvec", maxn=5),
                # no dependence on the thread's earlier calls: every ordered triple of the sampler/parameter entries
                j("history-3", "rel", mode="history"),
                j("zigslow", "rel", mode="zigslow", tolppm=12000),
                # the samplers are documented as thread safe: two threads with different seeds and shapes under the
                # serialising scheduler (a scheduling point before every raw draw), and free-running under ThreadSanitizer
                dict(name="threads-2", harness="c15_random", cfg="asan", opts=dict(mode="threads", nthreads=2, prop="c16"),
                     bound_min=0, bound_max=2, deadline=600, crash_is_violation=True, recycle=1000),
                dict(name="tsan-free-running", harness="c15_random", cfg="tsan", workers=1, opts=dict(mode="free", prop="c16"),
                     bound_min=0, bound_max=0, deadline=600, crash_is_violation=True, recycle=1000),
                # the same under the floating-point trap mask that cimba_run_experiment() gives its worker threads
                j("lattice-12-fptrap", "rel", mode="lattice", lbits=12, fptrap=1),
                j("seq-K2-O2-fptrap", "rel", mode="seq", K=2, fptrap=1)]
    return [j("tables", mode="tables"), j("tables-O2", "rel", mode="tables"), j("lattice-20", "rel", mode="lattice", lbits=20),
            j("seq-K3", "rel", mode="seq", K=3), j("seq-K2-asan", mode="seq", K=2), j("history-3", "rel", mode="history"),
            j("history-3-asan", mode="history"),
            j("zigslow-fine", "rel", mode="zigslow", m1=128, m2=64, m3=32, tolppm=6000),
            j("aliasvec-6", mode="aliasvec", maxn=6), j("aliasvec-6-fptrap", "rel", mode="aliasvec", maxn=6, fptrap=1),
            j("lattice-16-fptrap", "rel", mode="lattice", lbits=16, fptrap=1),
            j("seq-K3-fptrap", "rel", mode="seq", K=3, fptrap=1)]


spec("C16", jobs=c16_jobs,
     technique="exhaustive enumeration of raw-generator word sequences (the generator is an enumerated environment via hook H2) against textbook reference constructions; exhaustive lattice over the raw word for single-draw samplers; exhaustive check of all 256 ziggurat layers and alias entries",
     level_text="(i) Tables: for every one of the 256 layers of the build-time generated exponential and normal ziggurats: corner on the "
                "pdf, nested, equal area, alias-table mass of every overhang equal to its exact share of the area outside the "
                "rectangles (1e-9 / 1e-8), concavity bound valid, tail start consistent, tables linked into the library identical "
                "to the generated ones. (ii) Lattice: for uniform, triangular, logistic, Pareto, dice, Bernoulli, loaded dice, alias "
                "tables and both ziggurat hot paths, every raw word on a 2^16 (2^20) lattice plus the extremes: inside the support, "
                "monotone, F(x(u)) = u to lattice resolution, discrete frequencies equal to the requested probabilities, boundary "
                "parameters (min=mode, p=1, p=0, probability vectors summing to 1 +- 5e-4). (iii) Sequences: for 35 sampler/"
                "parameter combinations of the multi-draw samplers, every sequence of K raw words over a 40-word adversarial "
                "alphabet (extremes, a grid of the top bits, every ziggurat branch via the low byte): inside the support, terminates, "
                "and equal (1e-12) to the textbook construction of the stated distribution from the same raw words (inversion, "
                "Marsaglia-Tsang with the shape<1 boost everywhere, sums, Bernoulli sums); cmb_random_std_gamma is also called "
                "directly with shapes below one. (iv) Probability vectors: every vector of length <= 5 (6) over the weights "
                "{0,1,2,5}: the alias table gives every outcome exactly its probability (zero for a zero entry) and neither "
                "alias_sample nor loaded_dice ever returns an outcome of probability zero on a lattice of raw words. (v) Lattice, "
                "vectors and sequences again under the floating-point trap mask that cimba_run_experiment gives its worker threads "
                "(log(0), 0/0, sqrt(<0) inside a sampler end the execution with SIGFPE there). (vi) Ziggurat slow paths: every "
                "raw-word sequence that leaves the hot path (each slow low byte x a lattice of the upper bits, both signs; all 256 "
                "low bytes x a lattice for the second word; a lattice for the third) is executed with its product weight, and the "
                "resulting distribution is compared cumulatively with what the stated density leaves once the hot path's exactly "
                "known share (uniform variates on the table's intervals) is taken out.",
     level_note="Trusted: the reference constructions and distribution functions in harness/c16_dist.c (written from the textbook "
                "formulas), hook H2. The convergence clause is a limit statement; it is decided here in its finite form: for "
                "single-draw samplers and the ziggurats the distribution of the result as a function of independent uniform raw "
                "words is integrated on a lattice (error bound: lattice resolution, measured 0.1-0.4 % of the slow path's 1.2-1.6 % "
                "mass) and compared with the stated distribution; for the other multi-draw samplers what is decided is support on "
                "adversarial raw words and algorithmic equivalence with the standard construction on every enumerated raw sequence.",
     budget=dict(quick=900, thorough=5400),
     rule="tables: 256 layers x 2 distributions; lattice: 23 sampler/parameter sets x 2^lbits raw words; sequences: 35 sampler/"
          "parameter sets x 40^K raw-word sequences; distinct_nontrivial = distinct returned values (sequences) / distinct outcome vectors",
     assumptions=["draws beyond the K enumerated words follow one fixed pseudo-random continuation (same for library and reference)"])


# ----------------------------------------------------------------------------- deeper pruned jobs in the thorough tiers
def _with_deep(fn, n=2, bmax=5):
    def jobs(tier):
        base = fn(tier)
        if tier == "quick":
            return base
        extra = [deep(j, bmax) for j in base if j["harness"] == "des" and "prune_xcheck" not in j][:n]
        return base + extra
    return jobs


for _pid, _n, _b in (("C04", 2, 5), ("C06", 3, 5), ("C07", 2, 5), ("C08", 3, 5), ("C09", 2, 5), ("C10", 2, 4),
                     ("C11", 2, 5), ("C12", 2, 5), ("C13", 2, 5), ("C14", 2, 5)):
    SPECS[_pid]["jobs"] = _with_deep(SPECS[_pid]["jobs"], _n, _b)
    SPECS[_pid]["budget"] = dict(quick=SPECS[_pid]["budget"]["quick"], thorough=14400)
