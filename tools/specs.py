"""Per-property job lists: which harness, which configurations, which bounds.

A job = one run of the explorer over one harness configuration. `jobs(tier)`
returns the list for a tier; budgets are wall-clock seconds for the whole check.
"""

SPECS = {}


def spec(pid, **kw):
    SPECS[pid] = kw


# ----------------------------------------------------------------------------- C02
def c02_jobs(tier):
    jobs = []
    orders = ["event", "guard", "holder", "pq", "default"]
    if tier == "quick":
        for o in orders:
            for keys, exp, depth in (("auto", 1, 4), ("mixed", 2, 4), ("caller", 3, 4)):
                jobs.append(dict(name="seq-%s-%s-e%d" % (o, keys, exp), harness="c02_hashheap",
                                 opts=dict(order=o, keys=keys, exp=exp, depth=depth, mode="seq"),
                                 bound_min=0, bound_max=0, deadline=120))
            jobs.append(dict(name="ramp-%s" % o, harness="c02_hashheap",
                             opts=dict(order=o, keys="mixed", exp=1, mode="ramp"),
                             bound_min=0, bound_max=0, deadline=60))
    else:
        for o in orders:
            for keys in ("auto", "mixed", "caller"):
                for exp in (1, 2, 3):
                    jobs.append(dict(name="seq-%s-%s-e%d" % (o, keys, exp), harness="c02_hashheap",
                                     opts=dict(order=o, keys=keys, exp=exp, depth=5, mode="seq"),
                                     bound_min=0, bound_max=0, deadline=400))
            jobs.append(dict(name="seq6-%s" % o, harness="c02_hashheap",
                             opts=dict(order=o, keys="mixed", exp=1, depth=6, mode="seq"),
                             bound_min=0, bound_max=0, deadline=900))
            for exp in (1, 2, 3):
                jobs.append(dict(name="ramp-%s-e%d" % (o, exp), harness="c02_hashheap",
                                 opts=dict(order=o, keys="mixed", exp=exp, mode="ramp"),
                                 bound_min=0, bound_max=0, deadline=60))
    return jobs


spec("C02",
     jobs=c02_jobs,
     technique="explicit-state exhaustive enumeration of operation sequences on the real cmi_hashheap against a reference model (all sequences to depth D + parametric ramps)",
     level_text="Every operation sequence up to the stated depth over a 24-operation menu, for every ordering function "
                "used in the library, every initial exponent 1-3 and auto/caller/mixed keys with forced hash collisions, is "
                "executed on the real structure; return values, full structural well-formedness and all key lookups are "
                "compared with a boring array model after every call. Small-scope exhaustive: below the bound nothing is sampled.",
     level_note="Trusted: the reference array model and the strict-weak-order precheck in harness/c02_hashheap.c; the explorer. "
                "Not covered: sequences longer than the depth bound, capacities beyond 2^7.",
     budget=dict(quick=600, thorough=7200),
     crash_is_violation=True,
     rule="every operation sequence of the stated depth over the menu {enqueue (auto key x4 sort keys, "
          "5 colliding caller keys), dequeue, remove (oldest/newest/middle/dead), reprioritize x4, "
          "pattern-cancel x3, clear, reset, enqueue-many(5)} is executed on the real cmi_hashheap and "
          "compared with a reference array after every call, then drained; plus tombstone ramps n=1..40. "
          "distinct_nontrivial = number of distinct outcome signatures (hash of all return values) observed; "
          "states = distinct abstract states (live key/sort-key multiset + capacity) reached",
     assumptions=["keys supplied by the caller never collide with automatically issued keys (documented precondition)",
                  "growth thresholds beyond 2^7 entries are not crossed by the sequence search (ramps reach 64)"])
