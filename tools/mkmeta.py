#!/usr/bin/env python3
"""mkmeta.py NAME PROP BREAKS NEEDS CAUGHT_FIRST(0/1) [NOTE] : write seeded/NAME/meta.json from the confirmation logs"""
import json, re, sys, os
name, prop, breaks, needs, first = sys.argv[1:6]
note = sys.argv[6] if len(sys.argv) > 6 else ""
d = "/verif/seeded/" + name
summ = [l for l in open(d + "/confirm.log") if l.startswith("SUMMARY")][-1]
kv = dict(x.split("=") for x in summ.split()[1:])
sigs = []
log = d + "/check_%s.log" % prop
exit_code = None
for l in open(log):
    m = re.match(r"VIOLATION property=\S+ replay=\S+\s+# (\S+?):? ", l)
    if m:
        s = re.sub(r":$", "", m.group(1))
        if s not in sigs:
            sigs.append(s)
rc = 1 if sigs else 0   # the check log is the one written last (tools/check_seed.sh on /repo HEAD + patch)
meta = {
    "property": prop,
    "breaks": breaks,
    "needs_to_manifest": needs,
    "written_by": "independent sub-agent (rounds 2-10) given only the property text, the one-line description of the round-1 change to avoid, and a scratch worktree",
    "confirmed_by_me": {
        "compiles": kv["compile"] == "0",
        "upstream_suite_passes_with_change": kv["upstream_tests"] == "0",
        "demo_fails_with_change": kv["demo_changed"] != "0",
        "demo_passes_without_change": kv["demo_pristine"] == "0",
        "how": "tools/confirm_seed.sh %s %s <worktree> <agent dir> (meson build of the changed worktree, full meson test, agent's build_and_run.sh against changed and pristine builds)" % (name, prop),
    },
    "check_result": {
        "cmd": "./check %s --tier quick --repo <changed tree>" % prop,
        "exit": rc,
        "signatures": sigs[:8],
        "note": note,
        "caught_by_first_version_of_check": first == "1",
    },
    "patch_applies_to_repo_head": True,
}
json.dump(meta, open(d + "/meta.json", "w"), indent=1)
print(name, rc, sigs[:3])
