#!/bin/sh
# check_seed.sh <NAME> [tier] : run ./check <PROPERTY> against /repo HEAD + seeded/<NAME>/patch.diff in a scratch worktree
# (removed afterwards); NAME is C07 or C07b ..., PROPERTY its first three characters; the log goes to seeded/<NAME>/check_<PROPERTY>.log
NAME=$1; TIER=${2:-quick}
PROP=$(echo $NAME | cut -c1-3)
WT=/tmp/wt_seedchk_$NAME
git -C /repo worktree remove --force $WT >/dev/null 2>&1
git -C /repo worktree add -q --detach $WT HEAD || exit 3
git -C $WT apply /verif/seeded/$NAME/patch.diff || { echo "patch does not apply"; git -C /repo worktree remove --force $WT; exit 3; }
(cd /verif && ./check $PROP --tier $TIER --repo $WT > /verif/seeded/$NAME/check_$PROP.log 2>&1); rc=$?
git -C /repo worktree remove --force $WT
tail -1 /verif/seeded/$NAME/check_$PROP.log | cut -c1-200
echo "seed $NAME tier $TIER: check exit $rc (1 = detected)"
exit $rc
