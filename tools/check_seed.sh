#!/bin/sh
# check_seed.sh <ID> [tier] : run ./check <ID> against /repo HEAD + seeded/<ID>/patch.diff in a scratch worktree (removed afterwards)
ID=$1; TIER=${2:-quick}
WT=/tmp/wt_seedchk_$ID
git -C /repo worktree remove --force $WT >/dev/null 2>&1
git -C /repo worktree add -q --detach $WT HEAD || exit 3
git -C $WT apply /verif/seeded/$ID/patch.diff || { echo "patch does not apply"; git -C /repo worktree remove --force $WT; exit 3; }
(cd /verif && ./check $ID --tier $TIER --repo $WT); rc=$?
git -C /repo worktree remove --force $WT
echo "seed $ID tier $TIER: check exit $rc (1 = detected)"
exit $rc
