#!/usr/bin/env python3
"""Regenerate MANIFEST.json from tools/specs.py (run after editing specs)."""
import json, os, subprocess, sys
VERIF = os.path.dirname(os.path.dirname(os.path.abspath(__file__)))
sys.path.insert(0, os.path.join(VERIF, "tools"))
import specs

props = [json.loads(l) for l in open(os.path.join(VERIF, "properties.jsonl"))]
hooks = subprocess.run(["git", "-C", "/repo", "log", "--format=%H %s"], stdout=subprocess.PIPE, text=True).stdout
hook_commits = [l.split()[0] for l in hooks.splitlines() if "verif hook" in l]
checks, na = [], []
for p in props:
    pid = p["id"]
    s = specs.SPECS.get(pid)
    if s is None or s.get("disabled"):
        na.append({"property_id": pid, "reason": (s or {}).get("disabled", "no check registered yet for this property (machinery under construction; see DESIGN.md section 4 for the planned design)")})
        continue
    c = {
        "property_id": pid,
        "quick_cmd": "./check %s --tier quick" % pid,
        "thorough_cmd": "./check %s --tier thorough" % pid,
        "evidence_file": "/verif/evidence/%s.json" % pid,
        "replay_cmd_template": "./check %s --replay {path}" % pid,
        "engine": "vx_explore",
        "level_claimed": {"category": "model_checking", "text": s["level_text"], "design_ref": s.get("design_ref", "DESIGN.md section 4, " + pid)},
        "level_note": s["level_note"],
        "technique": s["technique"],
    }
    checks.append(c)
m = {
    "version": 1,
    "setup_cmd": "python3 tools/build.py lib asan && python3 tools/build.py lib rel && python3 tools/build.py lib tsan",
    "hooks": {
        "guard": "CIMBA_VERIF",
        "enable": "tools/build.py compiles /repo/src (+ port/x86-64/linux, nasm, codegen) directly with -DCIMBA_VERIF -DNDEBUG and links the objects into each harness; no meson involved",
        "baseline_off_cmd": "meson compile -C /repo/_build && meson test -C /repo/_build",
        "source_commits": hook_commits,
        "add_only": True,
    },
    "engines": [
        {"name": "vx_explore", "path": "engine/vx_explore.c",
         "serves_properties": [c["property_id"] for c in checks],
         "kind_free_text": "stateless replay-based depth-first exploration of choice sequences over the real code, iterated deviation bound, forked worker pool with crash take-over, shared visited/state/outcome sets"},
    ],
    "checks": checks,
    "not_applicable": na,
    "notes": "All checks rebuild the library objects from /repo's working tree (content-hash cache) before exploring. known_findings.json lists recorded defects and fixed ones.",
}
json.dump(m, open(os.path.join(VERIF, "MANIFEST.json"), "w"), indent=1)
print("checks:", [c["property_id"] for c in checks], "not_applicable:", len(na))
