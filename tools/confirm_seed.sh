#!/bin/sh
# confirm_seed.sh <NAME> <PROPERTY> <WORKTREE> <AGENT_DIR> : confirm a seeded change written by a sub-agent:
#  builds the changed tree with meson, runs the upstream suite, runs the demo against the changed and a pristine build,
#  runs ./check <PROPERTY> --repo <changed tree>, writes /verif/seeded/<NAME>/
NAME=$1; PROP=$2; WT=$3; AG=$4
OUT=/verif/seeded/$NAME
PRIS=/tmp/wt_pristine
mkdir -p $OUT
exec > $OUT/confirm.log 2>&1
set -x
git -C $WT diff > $OUT/patch.diff
cp $AG/*.c $AG/*.sh $AG/README.md $OUT/ 2>/dev/null
cp $AG/*.h $AG/*.py $OUT/ 2>/dev/null
(cd $WT && rm -rf _b && meson setup _b -Denable_docs=false >/dev/null && meson compile -C _b > $OUT/compile.log 2>&1) ; COMPILE=$?
(cd $WT && meson test -C _b > $OUT/upstream_tests.log 2>&1); TESTS=$?
rundemo() { # $1 tree  $2 log
  sh $OUT/build_and_run.sh $1 $1/_b > $2 2>&1; r=$?
  if grep -q "fatal error\|No such file or directory\|usage:" $2; then sh $OUT/build_and_run.sh $1/_b > $2 2>&1; r=$?; fi
  return $r
}
rundemo $WT $OUT/demo_changed.log; DEMO_CHANGED=$?
rundemo $PRIS $OUT/demo_pristine.log; DEMO_PRISTINE=$?
rm -rf $WT/_b $OUT/compile.log
set +x
(cd /verif && ./check $PROP --tier quick --repo $WT > $OUT/check_$PROP.log 2>&1); rc=$?
echo "SUMMARY name=$NAME compile=$COMPILE upstream_tests=$TESTS demo_changed=$DEMO_CHANGED demo_pristine=$DEMO_PRISTINE check_$PROP=$rc"
