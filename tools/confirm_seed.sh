#!/bin/sh
# confirm_seed.sh <ID> [checks...] : confirm a seeded change written by a sub-agent in /tmp/wt_<ID> + /tmp/agent_<ID>:
#  builds the changed tree with meson, runs the upstream suite, runs the demo against the changed and a pristine build,
#  runs the given checks (default: the property's own) with --repo <changed tree>, writes /verif/seeded/<ID>/
ID=$1; shift
CHECKS=${*:-$ID}
WT=/tmp/wt_$ID; AG=/tmp/agent_$ID; OUT=/verif/seeded/$ID
PRIS=/tmp/wt_pristine
mkdir -p $OUT
exec > $OUT/confirm.log 2>&1
set -x
git -C $WT diff > $OUT/patch.diff
cp $AG/demo*.c $AG/*.sh $AG/README.md $OUT/ 2>/dev/null
cp $AG/*.h $AG/*.py $OUT/ 2>/dev/null
(cd $WT && rm -rf _b && meson setup _b -Denable_docs=false >/dev/null && meson compile -C _b > $OUT/compile.log 2>&1) ; COMPILE=$?
(cd $WT && meson test -C _b > $OUT/upstream_tests.log 2>&1); TESTS=$?
sh $OUT/build_and_run.sh $WT $WT/_b > $OUT/demo_changed.log 2>&1; DEMO_CHANGED=$?
sh $OUT/build_and_run.sh $PRIS $PRIS/_b > $OUT/demo_pristine.log 2>&1; DEMO_PRISTINE=$?
rm -rf $WT/_b
set +x
RES=""
for c in $CHECKS; do
  (cd /verif && ./check $c --tier quick --repo $WT > $OUT/check_$c.log 2>&1); rc=$?
  RES="$RES $c:$rc"
done
echo "SUMMARY id=$ID compile=$COMPILE upstream_tests=$TESTS demo_changed=$DEMO_CHANGED demo_pristine=$DEMO_PRISTINE checks=$RES"
