#!/bin/sh
# run every registered check at the given tier (default quick); summary line per property
tier=${1:-quick}
cd "$(dirname "$0")/.."
for p in C01 C02 C03 C04 C05 C06 C07 C08 C09 C10 C11 C12 C13 C14 C15 C16 C17 C18 C19 C20; do
  ./check $p --tier $tier > build/tmp/$p.$tier.out 2>&1
  echo "rc=$? $(tail -1 build/tmp/$p.$tier.out)"
done
